"""Deterministic simulation of the BQSKit runtime.

Importing this package installs one import hook: BQSKit's library gates are
cached singletons hashed by *address*, so the iteration order of every gate
set (and with it the order in which synthesis tries gates, and the bytes of
every pickled machine model) changes from one interpreter to the next.
Like a randomised hash map this is a source of nondeterminism the
simulator must own.  The hook gives `bqskit.ir.gate.Gate` a hash derived
from the gate's class and construction arguments *at the moment the class
is created*, i.e. before any gate instance can have been put into a set or
dict.  Equality (identity of the cached instance) is untouched, so every
iteration order that results is one a real run can produce.
"""
from __future__ import annotations

import importlib.abc
import importlib.machinery
import sys
import zlib


def _stable_hash(self) -> int:
    key = getattr(self, '__cache_key__', None)
    try:
        cls, args, kwargs = key
        text = repr((cls.__module__, cls.__qualname__, args,
                     sorted(kwargs.items()) if isinstance(kwargs, dict)
                     else kwargs))
    except Exception:
        return object.__hash__(self)
    if ' at 0x' in text:
        return object.__hash__(self)
    return zlib.crc32(text.encode())


_stable_hash._dst_stable = True


def _patch(module) -> None:
    Gate = getattr(module, 'Gate', None)
    if Gate is not None and Gate.__dict__.get('__hash__') is None:
        Gate.__hash__ = _stable_hash


class _GateHook(importlib.abc.MetaPathFinder):
    target = 'bqskit.ir.gate'

    def find_spec(self, name, path=None, target=None):
        if name != self.target:
            return None
        for f in sys.meta_path:
            if f is self or not hasattr(f, 'find_spec'):
                continue
            spec = f.find_spec(name, path, target)
            if spec is not None and spec.loader is not None:
                loader = spec.loader
                orig = loader.exec_module

                def exec_module(module, _orig=orig):
                    _orig(module)
                    _patch(module)
                try:
                    loader.exec_module = exec_module
                except Exception:
                    return None
                return spec
        return None


def gate_hash_is_stable() -> bool:
    mod = sys.modules.get('bqskit.ir.gate')
    return mod is not None and getattr(
        mod.Gate.__hash__, '_dst_stable', False)


if 'bqskit.ir.gate' in sys.modules:
    # too late for the hook (somebody imported bqskit first): gate sets
    # created meanwhile would be corrupted by a hash change, so leave it
    pass
elif not any(isinstance(f, _GateHook) for f in sys.meta_path):
    sys.meta_path.insert(0, _GateHook())
