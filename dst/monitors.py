"""State invariants evaluated while a run proceeds (after every scheduler
step, on nodes whose main thread sits between two messages)."""
from __future__ import annotations


class Bookkeeping:
    """C15-1: counters of every boss (server / manager) stay in range."""

    name = 'bookkeeping'

    def install(self, sim, rr) -> None:
        self.sim = sim
        self.rr = rr
        self.checked = 0
        self.missing = set()
        self.seen_bad = set()
        sim.step_hooks.append(self.step)
        rr.info_monitors = self

    def step(self, sim) -> None:
        for node in sim.nodes.values():
            if node.dead or node.kind not in ('server', 'manager'):
                continue
            srv = node.scratch.get('server')
            m = node.main
            if srv is None or m is None:
                continue
            # only between messages: main thread parked in select()
            if m.state != 'blocked' or m.why != 'select':
                continue
            if not hasattr(srv, 'total_workers') or \
                    not hasattr(srv, 'num_idle_workers'):
                self.missing.add('total_workers/num_idle_workers')
                continue
            self.checked += 1
            tw, ni = srv.total_workers, srv.num_idle_workers
            if not (0 <= ni <= tw):
                self.bad(node, 'boss.num_idle_workers',
                         f'{ni} not in [0, {tw}]',
                         'neg' if ni < 0 else 'over')
            for e in getattr(srv, 'employees', []):
                if not (0 <= e.num_idle_workers <= e.total_workers):
                    self.bad(node, 'employee.num_idle_workers',
                             f'employee {e.id}: {e.num_idle_workers} not in '
                             f'[0, {e.total_workers}]',
                             'neg' if e.num_idle_workers < 0 else 'over')
                if e.num_tasks < 0:
                    self.bad(node, 'employee.num_tasks',
                             f'employee {e.id}: num_tasks={e.num_tasks}',
                             'neg')

    def bad(self, node, field, msg, sign) -> None:
        key = (node.kind, field, sign)
        if key in self.seen_bad:
            return
        self.seen_bad.add(key)
        self.rr.monitor_violations.append({
            'cls': 'COUNTER_RANGE',
            'sig': f'COUNTER_RANGE @ {node.kind}.{field} [{sign}]',
            'msg': f'{node.name} at step {self.sim.steps} '
                   f'(event {self.sim.seq}): {msg}',
        })
        self.sim.log('MONITOR', 'COUNTER_RANGE', node.name, field)


MONITORS = {'bookkeeping': Bookkeeping}
