"""Fault plan: process crashes placed by scheduler step or by event class.

A fault spec:
  {'kind': 'crash',
   'victim': {'kind': 'worker'|'manager', 'index': k},
   'trigger': {'type': 'steps_after_first_op', 'n': k}
            | {'type': 'event', 'cls': <event class>, 'nth': n},
   'lose_tail': bool}        # machine death: a suffix of what the victim
                             # had sent but was not yet delivered is lost

Event classes (observed on the victim):
  got-batch     victim's incoming thread received a SUBMIT_BATCH/SUBMIT
  body-start    a task body started on the victim (mid-task)
  sent-result   victim sent a RESULT (results in flight)
  sent-waiting  victim reported itself idle
  sent-submit   victim submitted child work upward
Crashes only arm after the first client operation was issued, i.e. after
every node completed its start-up handshake (C14 is about crashes *during
a compilation*).
"""
from __future__ import annotations


def _victim(sim, v: dict):
    if v['kind'] == 'manager':
        return sim.nodes.get(f"m{v['index']}")
    if v['kind'] == 'client':
        return sim.nodes.get(f"c{v['index']}")
    ws = [n for n in sim.nodes.values() if n.kind == 'worker']
    if not ws:
        return None
    return ws[v['index'] % len(ws)]


def _matches(cls: str, ev: tuple, name: str) -> bool:
    # ev = (seq, KIND, ...)
    kind = ev[1]
    if cls == 'got-batch':
        return (kind == 'RECV' and ev[2].endswith('>' + name)
                and ev[3][0] in ('SUBMIT_BATCH', 'SUBMIT'))
    if cls == 'body-start':
        return kind == 'BODY' and ev[2] == 'start' and ev[4] == name
    if cls == 'sent-result':
        return (kind == 'SEND' and ev[2].startswith(name + '>')
                and ev[3][0] == 'RESULT')
    if cls == 'sent-waiting':
        return (kind == 'SEND' and ev[2].startswith(name + '>')
                and ev[3][0] == 'WAITING')
    if cls == 'sent-submit':
        return (kind == 'SEND' and ev[2].startswith(name + '>')
                and ev[3][0] in ('SUBMIT_BATCH', 'SUBMIT'))
    if cls == 'fwd-result':
        return (kind == 'RECV' and ev[2].endswith('>' + name)
                and ev[3][0] == 'RESULT')
    return False


EVENT_CLASSES = ['got-batch', 'body-start', 'sent-result', 'sent-waiting',
                 'sent-submit', 'fwd-result']


def install(sim, rr, plan: list) -> None:
    state = {'armed': False, 'first_op_step': None}
    pend = []
    for f in plan:
        pend.append({'spec': f, 'count': 0, 'done': False})

    def do_crash(p) -> None:
        if p['done']:
            return
        p['done'] = True
        node = _victim(sim, p['spec']['victim'])
        if node is None or node.dead:
            rr.crashes.append({'spec': p['spec'], 'fired': False,
                               'why': 'victim gone'})
            return
        main_why = node.main.why if node.main is not None else ''
        if p['spec']['kind'] == 'sever':
            # the victim's upstream connection breaks while both ends stay
            # alive: in-flight data is lost, both ends see a reset
            from dst import seams
            up = [e for e in node.endpoints
                  if e.peer is not None and e.label.endswith('>' + node.name)
                  and not e.sock_closed and not e.peer.sock_closed]
            up = up[:1]
            for e in up:
                for x in (e, e.peer):
                    x.inflight.clear()
                    x.inflight.append(seams.RST)
                    x.rst_scheduled = True
            sim.log('SEVER', node.name)
            sim.count('fault.sever.' + node.kind)
            rr.crashes.append({'spec': p['spec'], 'fired': bool(up),
                               'victim': node.name, 'kind': node.kind,
                               'step': sim.steps, 'seq': sim.seq,
                               'now': sim.now, 'main_was': main_why,
                               'lost': 0, 'sever': True})
            return
        lost = 0
        if p['spec'].get('lose_tail'):
            for e in node.endpoints:
                peer = e.peer
                if peer is None:
                    continue
                q = peer.inflight
                n = len(q)
                if n:
                    keep = sim.decide(n + 1, 'fault-keep')
                    while len(q) > keep:
                        q.pop()
                        lost += 1
        sim.log('CRASH', node.name, p['spec']['trigger'].get('cls', 'step'))
        sim.count('fault.crash.' + node.kind)
        sim.count('fault.crash_at.' +
                  p['spec']['trigger'].get('cls', 'step'))
        if lost:
            sim.count('fault.lost_in_flight', lost)
        rr.crashes.append({'spec': p['spec'], 'fired': True,
                           'victim': node.name, 'kind': node.kind,
                           'step': sim.steps, 'seq': sim.seq,
                           'now': sim.now,
                           'main_was': main_why, 'lost': lost})
        sim.kill(node, -9, how='crash')

    def watcher(ev) -> None:
        if ev[1] == 'CLIENT-OP' and not state['armed']:
            state['armed'] = True
            state['first_op_step'] = sim.steps
        if not state['armed']:
            return
        for p in pend:
            if p['done']:
                continue
            tr = p['spec']['trigger']
            if tr['type'] != 'event':
                continue
            node = _victim(sim, p['spec']['victim'])
            if node is None:
                continue
            if _matches(tr['cls'], ev, node.name):
                p['count'] += 1
                if p['count'] >= tr.get('nth', 1):
                    sim.pending_actions.append(lambda p=p: do_crash(p))

    def step_hook(sim_) -> None:
        if not state['armed']:
            return
        for p in pend:
            if p['done']:
                continue
            tr = p['spec']['trigger']
            if tr['type'] == 'steps_after_first_op':
                if sim_.steps - state['first_op_step'] >= tr['n']:
                    sim_.pending_actions.append(lambda p=p: do_crash(p))
                    p['queued'] = True

    if pend:
        sim.event_watchers.append(watcher)
        sim.step_hooks.append(step_hook)
    rr._fault_pending = pend
