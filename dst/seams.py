"""Simulated OS primitives behind the names the BQSKit runtime imports.

Rule for every primitive: yield FIRST, then check-and-update while holding
the baton, so the primitive is atomic with respect to the schedule.

Connection fault behaviour encodes what was measured on loopback TCP with
`multiprocessing.connection` in this sandbox (see selftest/conformance.py):

* peer closed/killed after reading everything: buffered messages, then
  EOFError on recv; a later send succeeds once (silently lost), after the
  resulting RST has arrived sends raise BrokenPipeError;
* peer closed/killed with unread data: buffered messages, then
  ConnectionResetError on recv; send raises BrokenPipeError;
* use of a locally closed connection: OSError('handle is closed').
"""
from __future__ import annotations

import collections
import pickle
import queue as _queue
import selectors as _selectors
import subprocess as _subprocess
from multiprocessing.reduction import ForkingPickler

from dst.sched import SimKilled

import os as _os
_DEBUG_PAYLOAD = bool(_os.environ.get('DST_PAYLOAD_HASH'))
FIN = ('<FIN>',)
RST = ('<RST>',)


def _describe(obj) -> tuple:
    """Structured, deterministic description of a runtime message."""
    try:
        msg, payload = obj
        name = msg.name
    except Exception:
        return (type(obj).__name__,)
    try:
        if name == 'SUBMIT':
            a = getattr(payload, 'return_address', None)
            if a is not None:
                return (name, tuple(a), _parent(payload))
            return (name, 'comp', str(getattr(payload, 'task_id', '?')))
        if name == 'SUBMIT_BATCH':
            return (name, tuple(tuple(t.return_address) for t in payload),
                    tuple(_parent(t) for t in payload))
        if name == 'RESULT':
            if hasattr(payload, 'return_address'):
                return (name, tuple(payload.return_address),
                        payload.completed_by)
            return (name, 'client')
        if name == 'CANCEL':
            if isinstance(payload, tuple):
                return (name, tuple(payload))
            return (name, str(payload))
        if name == 'WAITING':
            n, rr = payload
            return (name, n, None if rr is None else tuple(rr))
        if name == 'UPDATE':
            return (name, payload)
        if name == 'ERROR':
            if isinstance(payload, tuple):
                return (name, payload[0], _last_line(payload[1]))
            return (name, None, _last_line(payload))
        if name == 'LOG':
            if isinstance(payload, tuple):
                return (name, payload[0])
            return (name,)
        if name in ('REQUEST', 'STATUS'):
            return (name, str(payload))
        if name == 'STARTED':
            return (name, payload)
        if name == 'CONNECT':
            return (name,) if isinstance(payload, list) else (name, payload)
    except Exception:
        pass
    return (name,)


def _parent(task):
    bc = getattr(task, 'breadcrumbs', ())
    return tuple(bc[-1]) if bc else None


def _last_line(s) -> str:
    s = str(s).strip().splitlines()
    return s[-1][:200] if s else ''


def _logged_size(desc, buf) -> int:
    """Payload size as it enters the event trace (and its digest).  A LOG
    message carries a pickled LogRecord with the real process id, thread
    id and wall-clock times of the interpreter that happens to host the
    run: its size varies by a few bytes between processes, so it is left
    out of the trace."""
    if isinstance(desc, tuple) and desc and desc[0] == 'LOG':
        return 0
    return len(buf)


class SimConnection:
    """One end of a duplex message connection."""

    def __init__(self, sim, owner, label: str) -> None:
        self.sim = sim
        self.owner = owner
        self.label = label
        self.index = len(sim.endpoints)
        self.peer: SimConnection | None = None
        self.inbox: collections.deque = collections.deque()
        self.inflight: collections.deque = collections.deque()
        self._closed = False           # python-level handle closed
        self.sock_closed = False       # OS-level socket closed
        self.fin_arrived = False
        self.rst_arrived = False
        self.rst_scheduled = False
        self.frozen = False
        self.accepted = True
        self.n_sent = 0
        self.n_recv = 0
        self._fd = 1000 + self.index
        sim.endpoints.append(self)
        owner.endpoints.append(self)

    def __repr__(self) -> str:
        return f'<conn {self.label}>'

    # -- identity: real Connection objects hash by identity as well
    @property
    def closed(self) -> bool:
        return self._closed

    def fileno(self) -> int:
        if self._closed:
            raise OSError('handle is closed')
        return self._fd

    # -- scheduler side
    def deliver_one(self) -> None:
        item = self.inflight.popleft()
        if item is FIN:
            self.fin_arrived = True
            self.sim.log('DELIVER', self.label, 'FIN')
        elif item is RST:
            self.rst_arrived = True
            self.sim.log('DELIVER', self.label, 'RST')
        else:
            desc, buf = item
            if self.sock_closed:
                # data reaching a closed socket: answered by a reset
                self.sim.log('DELIVER-TO-CLOSED', self.label, desc)
                p = self.peer
                if p is not None and not p.sock_closed \
                        and not p.rst_scheduled:
                    p.rst_scheduled = True
                    p.inflight.append(RST)
                return
            self.inbox.append(item)
            self.sim.log('DELIVER', self.label, desc, _logged_size(desc, buf))

    def readable(self) -> bool:
        return bool(self.inbox) or self.fin_arrived or self.rst_arrived

    def _readable_or_closed(self) -> bool:
        return self.readable() or self._closed

    # -- application side
    def send(self, obj) -> None:
        sim = self.sim
        sim.check_alive()
        if self._closed:
            raise OSError('handle is closed')
        buf = bytes(ForkingPickler.dumps(obj))
        sim.yield_('send')
        if self._closed:
            raise OSError('handle is closed')
        desc = _describe(obj)
        peer = self.peer
        if self.rst_arrived:
            sim.log('SEND-FAIL', peer.label, desc, 'EPIPE')
            sim.count('fault.send_broken_pipe')
            raise BrokenPipeError(32, 'Broken pipe')
        self.n_sent += 1
        peer.inflight.append((desc, buf))
        if _DEBUG_PAYLOAD:
            import hashlib
            sim.log('SEND', peer.label, desc, _logged_size(desc, buf),
                    hashlib.sha256(buf).hexdigest()[:10])
        else:
            sim.log('SEND', peer.label, desc, _logged_size(desc, buf))

    def recv(self):
        sim = self.sim
        sim.check_alive()
        if self._closed:
            raise OSError('handle is closed')
        if self.readable():
            sim.yield_('recv')
        else:
            sim.block(self._readable_or_closed, f'recv {self.label}')
        if self._closed:
            raise OSError('handle is closed')
        if self.inbox:
            desc, buf = self.inbox.popleft()
            self.n_recv += 1
            sim.log('RECV', self.label, desc)
            return pickle.loads(buf)
        if self.rst_arrived and not self.fin_arrived:
            sim.log('RECV-FAIL', self.label, 'ECONNRESET')
            sim.count('fault.recv_reset')
            raise ConnectionResetError(104, 'Connection reset by peer')
        sim.log('RECV-FAIL', self.label, 'EOF')
        sim.count('fault.recv_eof')
        raise EOFError

    def poll(self, timeout: float = 0.0) -> bool:
        sim = self.sim
        sim.check_alive()
        if self._closed:
            raise OSError('handle is closed')
        if timeout:
            end = sim.now + timeout
            sim.block(self._readable_or_closed, 'poll', deadline=end)
        else:
            sim.yield_('poll')
        if self._closed:
            raise OSError('handle is closed')
        r = self.readable()
        if not r and self.inflight:
            sim.count('probe.poll_false_while_inflight')
        return r

    def close(self) -> None:
        self.sim.check_alive()
        if self._closed:
            return
        self._closed = True
        self.sim.log('CLOSE', self.label)
        self._os_close()

    def _os_close(self, force_rst: bool = False) -> None:
        if self.sock_closed:
            return
        self.sock_closed = True
        p = self.peer
        if p is None or p.sock_closed:
            return
        unread = bool(self.inbox)
        self.inbox.clear()
        if unread or force_rst:
            if not p.rst_scheduled:
                p.rst_scheduled = True
                p.inflight.append(RST)
        else:
            p.inflight.append(FIN)


def make_pair(sim, owner_a, owner_b, label_a, label_b):
    a = SimConnection(sim, owner_a, label_a)
    b = SimConnection(sim, owner_b, label_b)
    a.peer, b.peer = b, a
    return a, b


def on_node_death(sim, node, graceful: bool) -> None:
    """OS closes every socket the process owned."""
    for e in list(node.endpoints):
        if not e.sock_closed:
            e._os_close()
    for lst in list(node.listeners):
        lst._os_close()
    for s in list(node.selectors):
        pass


def _norm(address):
    host, port = address
    if host in ('0.0.0.0', 'localhost', '127.0.0.1', ''):
        host = 'localhost'
    return (host, port)


class SimListener:
    def __init__(self, sim, address, family=None, backlog=1, authkey=None):
        self.sim = sim
        sim.check_alive()
        self.address = _norm(address)
        self.owner = sim.cur_node()
        if self.address in sim.listeners:
            raise OSError(98, 'Address already in use')
        sim.listeners[self.address] = self
        self.owner.listeners.append(self)
        self.backlog: collections.deque = collections.deque()
        self._closed = False
        sim.log('LISTEN', self.owner.name, self.address[1])

    def accept(self):
        sim = self.sim
        sim.check_alive()
        if self._closed:
            raise OSError('listener is closed')
        if self.backlog:
            sim.yield_('accept')
        else:
            sim.block(lambda: bool(self.backlog) or self._closed,
                      f'accept {self.address[1]}')
        if self._closed:
            raise OSError('listener is closed')
        c = self.backlog.popleft()
        c.accepted = True
        # the accepting thread's process owns the endpoint
        sim.log('ACCEPT', self.owner.name, c.label)
        return c

    def _os_close(self) -> None:
        if self._closed:
            return
        self._closed = True
        if self.sim.listeners.get(self.address) is self:
            del self.sim.listeners[self.address]
        while self.backlog:
            c = self.backlog.popleft()
            c._os_close(force_rst=True)

    def close(self) -> None:
        self.sim.check_alive()
        self._os_close()


def make_client(sim):
    def Client(address, family=None, authkey=None):
        sim.check_alive()
        addr = _norm(address)
        sim.yield_('connect')
        lst = sim.listeners.get(addr)
        me = sim.cur_node()
        if lst is None or lst._closed:
            sim.log('CONNECT-REFUSED', me.name, addr[1])
            sim.count('fault.connect_refused')
            raise ConnectionRefusedError(111, 'Connection refused')
        mine, theirs = make_pair(
            sim, me, lst.owner,
            f'{lst.owner.name}>{me.name}', f'{me.name}>{lst.owner.name}',
        )
        # label = "sender>receiver" of the data arriving at this endpoint
        theirs.accepted = False
        lst.backlog.append(theirs)
        sim.log('CONNECT', me.name, lst.owner.name, addr[1])
        return mine
    return Client


class SimSocket:
    """One end of socket.socketpair(): the server's terminate hot line."""

    def __init__(self, sim, owner) -> None:
        self.sim = sim
        self.owner = owner
        self.peer = None
        self.buf: collections.deque = collections.deque()
        self._closed = False
        sim._fdctr = getattr(sim, '_fdctr', 500) + 1
        self._fd = sim._fdctr

    def fileno(self) -> int:
        if self._closed:
            return -1
        return self._fd

    def send(self, b) -> int:
        self.peer.buf.append(b)
        return len(b)

    def recv(self, n):
        return self.buf.popleft() if self.buf else b''

    def readable(self) -> bool:
        return bool(self.buf)

    def close(self) -> None:
        self._closed = True


class RawSocket:
    """socket.socket(AF_INET, SOCK_STREAM): used only to unblock accept()."""

    def __init__(self, sim, *a, **k) -> None:
        self.sim = sim
        self.c = None

    def connect(self, address) -> None:
        sim = self.sim
        sim.check_alive()
        addr = _norm(address)
        sim.yield_('raw-connect')
        lst = sim.listeners.get(addr)
        if lst is None or lst._closed:
            raise ConnectionRefusedError(111, 'Connection refused')
        me = sim.cur_node()
        mine, theirs = make_pair(sim, me, lst.owner, f'raw>{me.name}',
                                 f'{me.name}>raw')
        theirs.accepted = False
        lst.backlog.append(theirs)
        self.c = mine

    def close(self) -> None:
        if self.c is not None:
            self.c._os_close()
            self.c._closed = True


class SimSelector(_selectors._BaseSelectorImpl):
    """Selector over simulated file objects; bookkeeping (register,
    unregister, get_map, close) is the real `_BaseSelectorImpl` code."""

    def __init__(self, sim) -> None:
        super().__init__()
        self.sim = sim
        self._sim_closed = False
        self._at_close: list = []
        sim.cur_node().selectors.append(self)

    def _ready_keys(self) -> list:
        return [k for k in self._fd_to_key.values()
                if k.fileobj.readable()]

    def _wake(self) -> bool:
        if self._sim_closed:
            return any(f.readable() for f in self._at_close)
        return bool(self._ready_keys())

    def select(self, timeout=None):
        sim = self.sim
        sim.check_alive()
        if self._sim_closed:
            raise ValueError('I/O operation on closed epoll object')
        if self._ready_keys():
            sim.yield_('select')
        else:
            sim.block(self._wake, 'select')
        if self._sim_closed:
            # closed by another thread while we were blocked: the kernel
            # object lives on until the wait returns; the key map is gone
            return []
        ready = self._ready_keys()
        if not ready:
            return []
        if len(ready) > 1:
            k = sim.decide(len(ready), 'select-n') + 1
            out = []
            pool = list(ready)
            for _ in range(k):
                j = sim.decide(len(pool), 'select-pick')
                out.append(pool.pop(j))
            if k < len(ready):
                sim.count('probe.select_strict_subset')
            ready = out
        return [(key, key.events) for key in ready]

    def close(self) -> None:
        if not self._sim_closed:
            self._at_close = [k.fileobj for k in self._fd_to_key.values()]
            self._sim_closed = True
        super().close()


class SimQueue:
    def __init__(self, sim, maxsize: int = 0) -> None:
        self.sim = sim
        self.q: collections.deque = collections.deque()
        self.unfinished = 0

    def put(self, x, block=True, timeout=None) -> None:
        self.sim.yield_('q.put')
        self.q.append(x)
        self.unfinished += 1

    def get(self, block=True, timeout=None):
        sim = self.sim
        sim.check_alive()
        if not block:
            return self.get_nowait()
        if self.q:
            sim.yield_('q.get')
        else:
            sim.block(lambda: bool(self.q), 'q.get')
        return self.q.popleft()

    def get_nowait(self):
        self.sim.yield_('q.get_nowait')
        if not self.q:
            raise _queue.Empty
        return self.q.popleft()

    def empty(self) -> bool:
        return not self.q

    def qsize(self) -> int:
        return len(self.q)

    def task_done(self) -> None:
        if self.unfinished <= 0:
            raise ValueError('task_done() called too many times')
        self.unfinished -= 1

    def join(self) -> None:
        sim = self.sim
        sim.yield_('q.join')
        if self.unfinished > 0:
            sim.block(lambda: self.unfinished <= 0, 'q.join')

    def full(self) -> bool:
        return False

    def put_nowait(self, x) -> None:
        self.put(x)


class SimLock:
    def __init__(self, sim) -> None:
        self.sim = sim
        self.holder = None

    def acquire(self, blocking=True, timeout=-1) -> bool:
        sim = self.sim
        sim.yield_('lock')
        if self.holder is not None:
            if not blocking:
                return False
            sim.count('probe.lock_contended')
            sim.block(lambda: self.holder is None, 'lock')
        self.holder = sim.cur()
        return True

    def release(self) -> None:
        if self.holder is None:
            raise RuntimeError('release unlocked lock')
        self.holder = None
        self.sim.yield_('unlock')

    def locked(self) -> bool:
        return self.holder is not None

    def __enter__(self):
        self.acquire()
        return True

    def __exit__(self, *a) -> None:
        self.release()


class SimRLock:
    def __init__(self, sim) -> None:
        self.sim = sim
        self.holder = None
        self.depth = 0

    def acquire(self, blocking=True, timeout=-1) -> bool:
        sim = self.sim
        me = sim.cur()
        if self.holder is me:
            self.depth += 1
            return True
        sim.yield_('rlock')
        if self.holder is not None:
            if not blocking:
                return False
            sim.count('probe.lock_contended')
            sim.block(lambda: self.holder is None, 'rlock')
        self.holder = me
        self.depth = 1
        return True

    def release(self) -> None:
        if self.holder is not self.sim.cur():
            raise RuntimeError('cannot release un-acquired lock')
        self.depth -= 1
        if self.depth == 0:
            self.holder = None
            self.sim.yield_('runlock')

    def __enter__(self):
        self.acquire()
        return True

    def __exit__(self, *a) -> None:
        self.release()


class SimThreadFacade:
    def __init__(self, sim, group=None, target=None, name=None, args=(),
                 kwargs=None, *, daemon=None) -> None:
        self.sim = sim
        self._target = target
        self._args = args
        self._kwargs = kwargs
        self.daemon = bool(daemon)
        self.name = name
        self._t = None

    def start(self) -> None:
        sim = self.sim
        sim.check_alive()
        node = sim.cur_node()
        role = getattr(self._target, '__name__', 'thread')
        self._t = sim.spawn(node, self._target, self._args, self._kwargs,
                            name=f'{node.name}/{role}', daemon=self.daemon)
        sim.yield_('thread.start')

    def is_alive(self) -> bool:
        return self._t is not None and self._t.state != 'done'

    def join(self, timeout=None) -> None:
        sim = self.sim
        if self._t is None:
            raise RuntimeError('cannot join thread before it is started')
        if self._t is sim.cur():
            raise RuntimeError('cannot join current thread')
        t = self._t
        end = None if timeout is None else sim.now + timeout
        sim.block(lambda: t.state == 'done', 'thread.join', deadline=end)


class SimProcess:
    """multiprocessing.Process facade: target runs as main thread of a new
    node."""

    def __init__(self, sim, namer, group=None, target=None, name=None,
                 args=(), kwargs=None, *, daemon=None) -> None:
        self.sim = sim
        self._namer = namer
        self._target = target
        self._args = tuple(args)
        self._kwargs = dict(kwargs or {})
        self.daemon = bool(daemon)
        self.node = None
        self.pid = None
        self.exitcode = None

    def start(self) -> None:
        sim = self.sim
        sim.check_alive()
        parent = sim.cur_node()
        name, kind = self._namer(parent, self._target, self._args,
                                 self._kwargs)
        self.node = sim.node(name, kind)
        self.node.parent = parent
        self.node.daemon = self.daemon
        parent.children.append(self.node)
        self.pid = 10000 + self.node.index
        sim.log('PROC-START', name)
        sim.spawn(self.node, self._target, self._args, self._kwargs,
                  name=f'{name}/main')
        sim.yield_('proc.start')

    def is_alive(self) -> bool:
        return self.node is not None and not self.node.dead

    def join(self, timeout=None) -> None:
        sim = self.sim
        n = self.node
        end = None if timeout is None else sim.now + timeout
        sim.block(lambda: n.dead, f'proc.join {n.name}', deadline=end)
        if n.dead:
            self.exitcode = n.exit_code

    def terminate(self) -> None:
        if self.node is not None and not self.node.dead:
            self.sim.kill(self.node, -15, how='sigterm')

    def kill(self) -> None:
        if self.node is not None and not self.node.dead:
            self.sim.kill(self.node, -9, how='sigkill')


class SimPopen:
    """subprocess.Popen([python, '-c', src]) facade."""

    def __init__(self, sim, argv, creationflags=0, **kw) -> None:
        self.sim = sim
        sim.check_alive()
        assert argv[1] == '-c', argv
        src = argv[2]
        parent = sim.cur_node()
        sim._npopen = getattr(sim, '_npopen', 0) + 1
        name = 'server' if sim._npopen == 1 else f'server{sim._npopen}'
        self.node = sim.node(name, 'server')
        self.node.parent = parent
        self.pid = 20000 + self.node.index
        self.returncode = None

        def main() -> None:
            exec(compile(src, '<attached-launch>', 'exec'),
                 {'__name__': '__sim_main__'})
        sim.log('POPEN', name)
        sim.spawn(self.node, main, name=f'{name}/main')
        sim.yield_('popen')

    def poll(self):
        if self.node.dead:
            self.returncode = self.node.exit_code
        return self.returncode

    def send_signal(self, sig) -> None:
        self.sim.check_alive()
        self.sim.yield_('send_signal')
        if self.poll() is None:
            self.sim.signal_node(self.node, int(sig))

    def communicate(self, input=None, timeout=None):
        sim = self.sim
        n = self.node
        end = None if timeout is None else sim.now + timeout
        ok = sim.block(lambda: n.dead, 'communicate', deadline=end)
        if not n.dead:
            sim.count('probe.communicate_timeout')
            raise _subprocess.TimeoutExpired('sim-server', timeout)
        self.returncode = n.exit_code
        return (None, None)

    def wait(self, timeout=None):
        self.communicate(timeout=timeout)
        return self.returncode

    def kill(self) -> None:
        self.sim.check_alive()
        self.sim.yield_('popen.kill')
        if not self.node.dead:
            self.sim.kill(self.node, -9, how='sigkill')
