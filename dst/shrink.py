"""Minimise a failing run: first the workload (re-searching schedules for
every candidate), then the schedule (decisions -> defaults, tail
truncation).  Every accepted candidate is a self-consistent exact replay:
the decisions stored are the ones the accepted run actually made.
"""
from __future__ import annotations

import copy
import time

from dst import runner


def _attempt(prop: str, scn: dict, decisions, lenient: bool, want: str):
    """Run once (forked); return (hit, decisions made, digest, trace)."""
    def child():
        from dst import engines
        from dst import props
        rr = engines.execute(scn, decisions=decisions, lenient=lenient)
        vs = props.evaluate(prop, rr) if rr.status == 'ok' else []
        return {'status': rr.status, 'violations': vs,
                'decisions': [list(d) for d in rr.sim.decisions],
                'digest': rr.sim.digest(),
                'trace': [list(map(runner._j, e))
                          for e in rr.sim.events[-600:]],
                'steps': rr.sim.steps}
    res = runner.fork_run(child, (), 90)
    if res.get('status') != 'ok':
        return False, None
    hit = any(v['sig'] == want for v in res['violations'])
    return hit, res


def _default(d):
    kind, n, c = d
    if kind == 'preempt':
        return [kind, n, 10 ** 9]
    return [kind, n, 0]


def shrink_schedule(prop, scn, decisions, want, deadline, stats):
    best = [list(d) for d in decisions]
    best_res = None

    def test(cand):
        stats['attempts'] += 1
        hit, res = _attempt(prop, scn, [tuple(d) for d in cand], True, want)
        if hit:
            return res
        return None

    # 1. tail truncation (binary search on the prefix kept)
    lo, hi = 0, len(best)
    while lo < hi and time.time() < deadline:
        mid = (lo + hi) // 2
        res = test(best[:mid])
        if res is not None:
            best = res['decisions']
            best_res = res
            hi = min(mid, len(best))
        else:
            lo = mid + 1
    # 2. ddmin: set chunks of non-default decisions to default
    chunk = max(1, len(best) // 2)
    while chunk >= 1 and time.time() < deadline:
        i = 0
        progressed = False
        while i < len(best) and time.time() < deadline:
            seg = best[i:i + chunk]
            if all(d == _default(d) for d in seg):
                i += chunk
                continue
            cand = best[:i] + [_default(d) for d in seg] + best[i + chunk:]
            res = test(cand)
            if res is not None and _nondefault(res['decisions']) < \
                    _nondefault(best):
                best = res['decisions']
                best_res = res
                progressed = True
            else:
                i += chunk
        if chunk == 1 and not progressed:
            break
        chunk = max(1, chunk // 2) if chunk > 1 else (1 if progressed else 0)
        if chunk == 0:
            break
    return best, best_res


def _nondefault(ds) -> int:
    return sum(1 for d in ds if list(d) != _default(d))


def workload_candidates(scn: dict):
    """Yield smaller scenarios (each a deep copy)."""
    # fewer clients
    if len(scn['clients']) > 1:
        for ci in range(len(scn['clients']) - 1, -1, -1):
            c = copy.deepcopy(scn)
            del c['clients'][ci]
            if _refs_ok(c):
                yield f'drop client {ci}', c
    # fewer ops per client
    for ci, cl in enumerate(scn['clients']):
        if len(cl['script']) > 1:
            for oi in range(len(cl['script']) - 1, -1, -1):
                c = copy.deepcopy(scn)
                del c['clients'][ci]['script'][oi]
                if _refs_ok(c):
                    yield f'drop op {ci}.{oi}', c
    # smaller topology
    t = scn['topo']
    if t['kind'] == 'attached' and t['workers'] > 1:
        c = copy.deepcopy(scn)
        c['topo']['workers'] -= 1
        yield 'fewer workers', c
    if t['kind'] == 'detached':
        if len(t['managers']) > 1:
            c = copy.deepcopy(scn)
            c['topo']['managers'].pop()
            yield 'fewer managers', c
        for i, n in enumerate(t['managers']):
            if n > 1:
                c = copy.deepcopy(scn)
                c['topo']['managers'][i] -= 1
                yield 'fewer workers', c
    # drop second fault
    if len(scn.get('faults') or []) > 1:
        c = copy.deepcopy(scn)
        c['faults'].pop()
        yield 'drop fault', c
    # program reductions
    for ci, cl in enumerate(scn['clients']):
        for oi, op in enumerate(cl['script']):
            if 'prog' not in op:
                continue
            for desc, prog in program_candidates(op['prog']):
                c = copy.deepcopy(scn)
                c['clients'][ci]['script'][oi]['prog'] = prog
                yield f'{ci}.{oi}: {desc}', c
    # no line pre-emption
    pol = scn.get('policy') or {}
    if pol.get('preempt_gap', 0) > 0:
        c = copy.deepcopy(scn)
        c['policy']['preempt_gap'] = 0
        yield 'no pre-emption', c


def _refs_ok(scn: dict) -> bool:
    """Client scripts must only reference tasks that are still submitted
    earlier in some script."""
    names = set()
    for ci, cl in enumerate(scn['clients']):
        for op in cl['script']:
            if op['op'] == 'submit':
                names.add((ci, op['as']))
    for ci, cl in enumerate(scn['clients']):
        have = set()
        for op in cl['script']:
            if op['op'] == 'submit':
                have.add(op['as'])
            t = op.get('t')
            if t is None or t == 'unknown':
                continue
            if ':' in t:
                who, nm = t.split(':')
                if int(who[1:]) >= len(scn['clients']) or \
                        (int(who[1:]), nm) not in names:
                    return False
            elif t not in have:
                return False
    return True


def program_candidates(prog: dict):
    """Smaller programs: drop a future (creation + every use), drop one
    child of a map, turn a subtree into a leaf, drop spin/log ops."""
    paths = []

    def visit(node, path):
        paths.append(path)
        for i, op in enumerate(node['ops']):
            if op['op'] == 'submit':
                visit(op['child'], path + [(i, None)])
            elif op['op'] == 'map':
                for j, ch in enumerate(op['children']):
                    visit(ch, path + [(i, j)])
    visit(prog, [])

    def get(p, path):
        n = p
        for i, j in path:
            op = n['ops'][i]
            n = op['child'] if j is None else op['children'][j]
        return n

    for path in paths:
        node = get(prog, path)
        futs = [op['f'] for op in node['ops']
                if op['op'] in ('submit', 'map')]
        for f in futs:
            p = copy.deepcopy(prog)
            n = get(p, path)
            n['ops'] = [op for op in n['ops'] if op.get('f') != f]
            yield f'drop future {f}', p
        for i, op in enumerate(node['ops']):
            if op['op'] == 'map' and len(op['children']) > 1:
                for j in range(len(op['children']) - 1, -1, -1):
                    p = copy.deepcopy(prog)
                    n = get(p, path)
                    del n['ops'][i]['children'][j]
                    yield f'drop map child {j}', p
            if op['op'] in ('spin', 'log'):
                p = copy.deepcopy(prog)
                n = get(p, path)
                del n['ops'][i]
                yield f'drop {op["op"]}', p
        if path and node['ops']:
            p = copy.deepcopy(prog)
            n = get(p, path)
            n['ops'] = []
            yield 'subtree -> leaf', p


def shrink_workload(prop, scn, want, deadline, stats, tries: int = 12,
                    decisions=None):
    """Greedy: accept any smaller scenario that still shows the same
    signature -- first under the recorded decisions replayed leniently (the
    schedule keeps its shape although the workload changed), then under up
    to `tries` fresh schedules."""
    cur = scn
    cur_res = None
    cur_dec = decisions
    improved = True
    while improved and time.time() < deadline:
        improved = False
        for desc, cand in workload_candidates(cur):
            if time.time() >= deadline:
                break
            if cur_dec is not None:
                stats['attempts'] += 1
                hit, res = _attempt(prop, copy.deepcopy(cand),
                                    [tuple(d) for d in cur_dec], True, want)
                if hit:
                    cur, cur_res = copy.deepcopy(cand), res
                    cur_dec = res['decisions']
                    stats['accepted'].append(desc + ' (same schedule)')
                    improved = True
                    break
            for k in range(tries):
                if time.time() >= deadline:
                    break
                c = copy.deepcopy(cand)
                c['seed'] = (scn['seed'] * 1000003 + stats['attempts']) \
                    % (2 ** 47)
                c.pop('sched_seed', None)
                stats['attempts'] += 1
                hit, res = _attempt(prop, c, None, False, want)
                if hit:
                    cur, cur_res = c, res
                    cur_dec = res['decisions']
                    stats['accepted'].append(desc)
                    improved = True
                    break
            if improved:
                break
    return cur, cur_res


def minimise(prop: str, res: dict, v: dict, budget_s: float = 60.0):
    want = v['sig']
    t0 = time.time()
    stats = {'attempts': 0, 'accepted': []}
    scn = res['scenario']
    decisions = res['decisions']
    # workload first (gets 35% of the budget), then schedule
    scn2, r2 = shrink_workload(prop, scn, want, t0 + 0.35 * budget_s, stats,
                               decisions=decisions)
    if r2 is not None:
        scn, decisions = scn2, r2['decisions']
    dec2, r3 = shrink_schedule(prop, scn, decisions, want,
                               t0 + budget_s, stats)
    final = r3 or r2
    if final is None:
        return None
    # confirm exact (non-lenient) replay reproduces with the same digest
    hit, conf = _attempt(prop, scn, [tuple(d) for d in final['decisions']],
                         False, want)
    if not hit or conf['digest'] != final['digest']:
        return None
    devs = [[i] + list(d) for i, d in enumerate(final['decisions'])
            if list(d) != _default(d)]
    vfinal = [x for x in final['violations'] if x['sig'] == want][0]
    return {
        'scenario': scn,
        'violation': vfinal,
        'decisions': final['decisions'],
        'trace_digest': final['digest'],
        'trace_tail': final['trace'],
        'all_signatures': sorted(x['sig'] for x in final['violations']),
        'minimisation': {
            'attempts': stats['attempts'],
            'accepted_workload_steps': stats['accepted'],
            'decisions_before': len(res['decisions']),
            'decisions_after': len(final['decisions']),
            'deviations_from_default': len(devs),
            'deviations': devs[:200],
            'steps': final['steps'],
            'seconds': round(time.time() - t0, 1),
        },
    }
