"""Aggregate run results into verdict, evidence file and replay files."""
from __future__ import annotations

import collections
import json
import os
import re
import subprocess
import time

VERIF = os.path.dirname(os.path.dirname(os.path.abspath(__file__)))

LEVELS = {
    'C01': 'exploration', 'C02': 'exploration', 'C03': 'exploration',
    'C07': 'exploration', 'C11': 'exploration', 'C12': 'exploration',
    'C13': 'exploration', 'C14': 'fault_enumeration',
    'C15': 'exploration',
}


def load_known() -> list:
    p = os.path.join(VERIF, 'known_findings.json')
    if not os.path.exists(p):
        return []
    with open(p) as f:
        d = json.load(f)
    return [x for x in d.get('findings', []) if x.get('status') == 'known']


def match_known(prop: str, sig: str, known: list):
    for k in known:
        if k['property'] == prop and re.fullmatch(k['signature'], sig):
            return k
    return None


def repo_head() -> str:
    try:
        return subprocess.run(['git', '-C', '/repo', 'rev-parse', 'HEAD'],
                              capture_output=True, text=True,
                              timeout=20).stdout.strip()
    except Exception:
        return '?'


def slug(sig: str) -> str:
    return re.sub(r'[^A-Za-z0-9_.+-]+', '_', sig).strip('_')[:80]


def write_replay(prop: str, res: dict, v: dict, verif_seed: int, tier: str,
                 minimised: dict | None = None) -> str:
    d = os.path.join(VERIF, 'replays', prop)
    os.makedirs(d, exist_ok=True)
    path = os.path.join(d, f'{slug(v["sig"])}-{res["seed"]}.json')
    doc = {
        'property': prop,
        'engine': res['scenario'].get('engine', 'simrt'),
        'run_seed': res['seed'], 'verif_seed': verif_seed, 'tier': tier,
        'scenario': res['scenario'],
        'decisions': res['decisions'],
        'violation': v,
        'all_signatures': sorted(x['sig'] for x in res['violations']),
        'trace_digest': res.get('digest'),
        'trace_tail': res.get('trace'),
        'repo_head': repo_head(),
        'minimised': bool(minimised),
    }
    if minimised:
        doc.update(minimised)
    with open(path, 'w') as f:
        json.dump(doc, f, indent=1, default=repr)
    return os.path.relpath(path, VERIF)


def aggregate(prop: str, tier: str, verif_seed: int, results: list,
              wall: float, extra: dict | None = None) -> tuple[dict, dict]:
    """Returns (evidence, verdict)."""
    n = len(results)
    by_status = collections.Counter(r.get('status', '?') for r in results)
    ok = [r for r in results if r.get('status') == 'ok']
    nontriv = [r for r in ok if r.get('nontrivial')]
    digests = {r['digest'] for r in nontriv}
    counters = collections.Counter()
    for r in ok:
        for k, v in (r.get('counters') or {}).items():
            counters[k] += v
    topo = collections.Counter(r.get('topo') for r in ok)
    classes = collections.Counter(r.get('cls') or 'general' for r in ok)
    pol = collections.Counter(r.get('policy') for r in ok)
    gaps = collections.Counter(str(r.get('preempt_gap')) for r in ok)
    steps = sum(r.get('steps', 0) for r in ok)
    simtime = sum(max(0.0, r.get('simtime', 0.0)) for r in ok)
    crash_points = collections.Counter()
    distinct_crash = set()
    for r in ok:
        for c in r.get('crashes') or []:
            if c.get('fired'):
                cls = c['trigger'].get('cls', 'step')
                crash_points[f"{c.get('kind')}/{cls}"] += 1
                distinct_crash.add((r.get('topo'), c.get('kind'),
                                    c.get('step')))
    sweep_fams = collections.defaultdict(lambda: {'members': 0, 'fired': 0,
                                                  'max_step_fired': 0})
    sweep_points = set()
    for r in ok:
        sw = r.get('sweep')
        if not sw:
            continue
        f = sweep_fams[sw['family']]
        f['members'] += 1
        f['stride'] = sw['stride']
        f['topo'] = r.get('topo')
        for c in r.get('crashes') or []:
            if c.get('fired'):
                f['fired'] += 1
                f['max_step_fired'] = max(f['max_step_fired'], sw['step'])
                sweep_points.add((sw['family'], c.get('victim'),
                                  sw['step']))
    samples = [r['sample'] for r in results if 'sample' in r][:3]
    if not samples and ok:
        samples = [{'seed': ok[0]['seed'], 'topology': ok[0].get('topo')}]
    sigs = collections.Counter()
    first = {}
    for r in results:
        for v in r.get('violations') or []:
            sigs[v['sig']] += 1
            first.setdefault(v['sig'], (r, v))
    info = collections.Counter()
    for r in ok:
        for k, v in (r.get('info') or {}).items():
            if isinstance(v, (int, float)):
                info[k] += v
    cov = {
        'evaluations': n,
        'distinct_nontrivial': len(digests),
        'rule': ('one evaluation = one simulated run of the real runtime '
                 'under a seeded schedule/fault plan; non-trivial = at '
                 'least one task was delivered to a worker process and at '
                 'least one scheduler decision had more than one option; '
                 'distinct = distinct SHA-256 of the full event trace '
                 '(sends, deliveries, receives, pre-emption sites, body '
                 'starts, crashes) among non-trivial runs'),
        'samples': samples,
        'conclusive_runs': len(ok),
        'status_histogram': dict(by_status),
        'scheduler_steps': steps,
        'simulated_seconds': round(simtime, 3),
        'runs_per_hour': round(n / wall * 3600) if wall > 0 else 0,
        'seeds_per_hour': round(n / wall * 3600) if wall > 0 else 0,
        'preemptions': sum(r.get('preempts', 0) for r in ok),
        'fault_and_probe_counters': dict(sorted(counters.items())),
        'topology_histogram': dict(topo),
        'workload_class_histogram_conclusive': dict(classes),
        'policy_histogram': dict(pol),
        'preempt_gap_histogram': dict(gaps),
        'crash_points_fired': dict(crash_points),
        'distinct_crash_points': len(distinct_crash),
        'crash_point_sweeps': {
            'rule': ('a sweep family fixes workload, topology, policy and '
                     'scheduler seed and enumerates (victim, scheduler step '
                     'after the first client operation) at the family\'s '
                     'stride; members whose step lies beyond the end of the '
                     'run are control runs'),
            'families': len(sweep_fams),
            'runs': sum(f['members'] for f in sweep_fams.values()),
            'crash_points_fired': sum(f['fired']
                                      for f in sweep_fams.values()),
            'distinct_family_victim_step': len(sweep_points),
            'per_family': [dict(f) for f in list(sweep_fams.values())[:40]],
        } if sweep_fams else None,
        'oracle_info': dict(info),
        'violation_signatures': dict(sigs),
    }
    if extra:
        cov.update(extra)
    from dst import wire
    cov['components'] = wire.REAL_STUB_REPORT
    ev = {
        'property_id': prop,
        'tier': tier,
        'seed': verif_seed,
        'level': LEVELS.get(prop, 'exploration'),
        'coverage': cov,
        'assumptions': ASSUMPTIONS,
        'wall_s': round(wall, 2),
        'violations': sum(sigs.values()),
    }
    return ev, {'sigs': sigs, 'first': first, 'by_status': by_status,
                'ok': len(ok), 'n': n, 'nontrivial': len(nontriv)}


ASSUMPTIONS = [
    'sampling, not enumeration: a clean batch is evidence, not proof',
    'pre-emption at source-line boundaries of the listed runtime functions '
    'only (subset of GIL switch points); C extensions run atomically',
    'simulated connections never block on send (unbounded buffers); '
    'per-connection FIFO, no loss/duplication (TCP)',
    'peer-death behaviour of connections as measured on loopback TCP in '
    'this sandbox (selftest/conformance.py)',
    'all nodes share one interpreter: interpreter-global state (root logger '
    'level, RuntimeTask.task_counter) is shared; oracles do not depend on it',
    'white-box idle-state probes read private attributes named in the '
    'property anchors',
    'library gates get a stable hash (import hook in dst/__init__.py) and '
    './check pins PYTHONHASHSEED=0: gate-set iteration order is one of the '
    'orders a real run can produce, not all of them',
    'compile() runs (C01-C03) execute in a fresh fork each; runs longer '
    'than the per-run wall timeout are inconclusive, never a pass',
]


def write_evidence(prop: str, ev: dict) -> str:
    d = os.path.join(VERIF, 'evidence')
    os.makedirs(d, exist_ok=True)
    p = os.path.join(d, f'{prop}.json')
    with open(p, 'w') as f:
        json.dump(ev, f, indent=1, default=repr)
    return p
