"""Scripted passes, predicates and block circuits for C11 (engine simpass =
simrt with a pass workload).

Everything here has a fully predictable effect, so that a sequential
reference (dst/oracles/c11.py) can say exactly what ForEachBlockPass,
ParallelDo and the control passes must produce, however the runtime
schedules the bodies.
"""
from __future__ import annotations

import random

import numpy as np
from bqskit.compiler.basepass import BasePass
from bqskit.ir.circuit import Circuit
from bqskit.ir.gates import CircuitGate
from bqskit.ir.gates import CNOTGate
from bqskit.ir.gates import CZGate
from bqskit.ir.gates import HGate
from bqskit.ir.gates import RZGate
from bqskit.ir.gates import XGate
from bqskit.passes.control.predicate import PassPredicate
from bqskit.runtime import get_runtime

from dst.workload import bodies


# ------------------------------------------------------------- effects
def apply_effect(kind: str, arg, circuit: Circuit, data) -> None:
    """The whole effect of a scripted body on (circuit, data); shared by
    the real pass and the reference.  `data` supports item access plus
    initial_mapping / final_mapping / placement attributes."""
    if kind == 'identity':
        return
    if kind == 'grow':
        q = arg % circuit.num_qudits
        circuit.append_gate(XGate(), q)
        circuit.append_gate(XGate(), q)
    elif kind == 'shrink':
        # drop the last operation pair if it is X,X on one qudit
        ops = list(circuit.operations_with_cycles())
        if len(ops) >= 2:
            (c1, o1), (c2, o2) = ops[-2], ops[-1]
            if isinstance(o1.gate, XGate) and isinstance(o2.gate, XGate) \
                    and o1.location == o2.location:
                circuit.pop((c2, o2.location[0]))
                circuit.pop((c1, o1.location[0]))
    elif kind == 'rewrite':
        # H = X-conjugated... keep it simple and exact: insert H,H
        q = arg % circuit.num_qudits
        circuit.append_gate(HGate(), q)
        circuit.append_gate(HGate(), q)
        circuit.append_gate(RZGate(), q, [0.0])
    elif kind == 'perturb':
        circuit.append_gate(RZGate(), 0, [float(arg)])
    elif kind == 'touch':
        n = len(data.placement)
        data.initial_mapping = list(reversed(data.initial_mapping))
        data.final_mapping = list(reversed(data.final_mapping))
        data['touched'] = data['touched'] + 1 if 'touched' in data else 1
        if arg:
            data.placement = list(reversed(data.placement))
    elif kind == 'setkey':
        data[f'key{arg}'] = arg
    elif kind == 'appendkey':
        # in-place mutation of a value already stored in the pass data
        if 'keylist' not in data:
            data['keylist'] = []
        data['keylist'].append(arg)
    elif kind in ('fail', 'spin'):
        pass
    else:
        raise AssertionError(kind)


class Body(BasePass):
    """Scripted body: records its execution, applies its effect."""

    def __init__(self, bid: int, kind: str, arg=0) -> None:
        self.bid = bid
        self.kind = kind
        self.arg = arg

    async def run(self, circuit, data) -> None:
        ctx = 'top'
        if 'subnumbering' in data and 'point' in data:
            loc = tuple(sorted(data['subnumbering'],
                               key=lambda q: data['subnumbering'][q]))
            ctx = loc
        bodies.rec('pass-run', self.bid, ctx, bodies._wid())
        if self.kind == 'fail':
            raise ValueError(f'MARKER-FAIL-{self.bid}')
        if self.kind == 'spin':
            for j in range(self.arg):
                v = await get_runtime().submit(bodies.trivial, (self.bid, j))
                if v != ('t', (self.bid, j)):
                    bodies.rec('spin-wrong', self.bid, 0, j, v)
            return
        apply_effect(self.kind, self.arg, circuit, data)


class Scripted(PassPredicate):
    """Predicate answering from a fixed list of verdicts (then False)."""

    def __init__(self, pid: int, verdicts: list) -> None:
        self.pid = pid
        self.verdicts = list(verdicts)

    def get_truth_value(self, circuit, data) -> bool:
        v = self.verdicts.pop(0) if self.verdicts else False
        bodies.rec('pred', self.pid, v)
        return v


class Decide:
    """DoThenDecide condition (old circuit, new circuit) -> bool."""

    def __init__(self, pid: int, verdict: bool) -> None:
        self.pid = pid
        self.verdict = verdict

    def __call__(self, old, new) -> bool:
        bodies.rec('pred', self.pid, self.verdict)
        return self.verdict


# collection / replace filters (module level: picklable by reference)
def collect_all(op) -> bool:
    return isinstance(op.gate, CircuitGate)


def collect_wide(op) -> bool:
    return isinstance(op.gate, CircuitGate) and op.num_qudits >= 2


def collect_even(op) -> bool:
    return isinstance(op.gate, CircuitGate) and op.location[0] % 2 == 0


def replace_always(circuit, op) -> bool:
    return True


def replace_never(circuit, op) -> bool:
    return False


def replace_smaller(circuit, op) -> bool:
    return circuit.num_operations < op.gate._circuit.num_operations


def replace_even(circuit, op) -> bool:
    return op.location[0] % 2 == 0


def fewer_ops(a, b) -> bool:
    return a.num_operations < b.num_operations


COLLECT = {'all': collect_all, 'wide': collect_wide, 'even': collect_even}
REPLACE = {'always': replace_always, 'never': replace_never,
           'smaller': replace_smaller, 'even': replace_even}


def build(wf: list):
    """Workflow spec -> list of real passes."""
    from bqskit.passes import DoThenDecide
    from bqskit.passes import DoWhileLoopPass
    from bqskit.passes import ForEachBlockPass
    from bqskit.passes import IfThenElsePass
    from bqskit.passes import ParallelDo
    from bqskit.passes import WhileLoopPass
    out = []
    for p in wf:
        t = p['t']
        if t == 'body':
            out.append(Body(p['id'], p['kind'], p.get('arg', 0)))
        elif t == 'foreach':
            out.append(ForEachBlockPass(
                build(p['body']),
                calculate_error_bound=p.get('err', False),
                collection_filter=COLLECT[p['filter']],
                replace_filter=REPLACE[p['replace']],
            ))
        elif t == 'if':
            out.append(IfThenElsePass(
                Scripted(p['id'], [p['verdict']]), build(p['then']),
                build(p['else']) if p.get('else') is not None else None))
        elif t == 'while':
            out.append(WhileLoopPass(Scripted(p['id'], p['verdicts']),
                                     build(p['body'])))
        elif t == 'dowhile':
            out.append(DoWhileLoopPass(Scripted(p['id'], p['verdicts']),
                                       build(p['body'])))
        elif t == 'dtd':
            out.append(DoThenDecide(Decide(p['id'], p['verdict']),
                                    build(p['body'])))
        elif t == 'pdo':
            out.append(ParallelDo([build(b) for b in p['branches']],
                                  fewer_ops, p['pick_first']))
        else:
            raise AssertionError(t)
    return out


# --------------------------------------------------------- circuits
def build_circuit(spec: dict) -> Circuit:
    c = Circuit(spec['n'])
    for item in spec['items']:
        if item['t'] == 'block':
            sub = Circuit(len(item['loc']))
            for g in item['ops']:
                _append(sub, g)
            c.append_gate(CircuitGate(sub), item['loc'], sub.params)
        else:
            _append(c, item)
    return c


def _append(c: Circuit, g: dict) -> None:
    k = g['g']
    if k == 'h':
        c.append_gate(HGate(), g['q'][0])
    elif k == 'x':
        c.append_gate(XGate(), g['q'][0])
    elif k == 'rz':
        c.append_gate(RZGate(), g['q'][0], [g['p']])
    elif k == 'cx':
        c.append_gate(CNOTGate(), g['q'])
    elif k == 'cz':
        c.append_gate(CZGate(), g['q'])
    else:
        raise AssertionError(k)


def gen_circuit(rng: random.Random, max_width: int = 4) -> dict:
    n = rng.randint(2, max_width)
    items = []
    for _ in range(rng.randint(2, 7)):
        if rng.random() < 0.7:
            w = rng.randint(1, min(3, n))
            loc = sorted(rng.sample(range(n), w))
            ops = []
            for _ in range(rng.randint(1, 4)):
                r = rng.random()
                if r < 0.3:
                    ops.append({'g': 'h', 'q': [rng.randrange(w)]})
                elif r < 0.6 or w == 1:
                    ops.append({'g': 'rz', 'q': [rng.randrange(w)],
                                'p': round(rng.uniform(-3, 3), 6)})
                else:
                    ops.append({'g': 'cx', 'q': rng.sample(range(w), 2)})
            if rng.random() < 0.5:
                q = rng.randrange(w)
                ops += [{'g': 'x', 'q': [q]}, {'g': 'x', 'q': [q]}]
            items.append({'t': 'block', 'loc': loc, 'ops': ops})
        elif n >= 2 and rng.random() < 0.5:
            items.append({'t': 'g', 'g': 'cz', 'q': rng.sample(range(n), 2)})
        else:
            items.append({'t': 'g', 'g': rng.choice(['x', 'h']),
                          'q': [rng.randrange(n)]})
    return {'n': n, 'items': items}


class IdGen:
    def __init__(self) -> None:
        self.n = 0

    def __call__(self) -> int:
        self.n += 1
        return self.n


def gen_bodies(rng: random.Random, ids: IdGen, in_block: bool,
               allow_fail: bool, depth: int = 0) -> list:
    """A short list of bodies, possibly wrapped in control passes."""
    out = []
    for _ in range(rng.randint(1, 3)):
        kinds = ['identity', 'grow', 'shrink', 'rewrite', 'spin', 'setkey',
                 'appendkey']
        if not in_block:
            kinds += ['touch']
        kind = rng.choice(kinds)
        arg = rng.randrange(4)
        if kind == 'spin':
            arg = rng.randint(1, 2)
        b = {'t': 'body', 'id': ids(), 'kind': kind, 'arg': arg}
        r = rng.random()
        if depth < 2 and r < 0.12:
            b = {'t': 'if', 'id': ids(), 'verdict': rng.random() < 0.5,
                 'then': [b], 'else': gen_bodies(rng, ids, in_block, False,
                                                 depth + 1)
                 if rng.random() < 0.5 else None}
        elif depth < 2 and r < 0.22:
            b = {'t': rng.choice(['while', 'dowhile']), 'id': ids(),
                 'verdicts': [True] * rng.randint(0, 2), 'body': [b]}
        elif depth < 2 and r < 0.34:
            b = {'t': 'dtd', 'id': ids(), 'verdict': rng.random() < 0.5,
                 'body': [b] + (gen_bodies(rng, ids, in_block, False,
                                           depth + 1)
                                if rng.random() < 0.4 else [])}
        out.append(b)
    if allow_fail and rng.random() < 0.08:
        out.insert(rng.randrange(len(out) + 1),
                   {'t': 'body', 'id': ids(), 'kind': 'fail', 'arg': 0})
    return out


def gen_workflow(rng: random.Random) -> list:
    ids = IdGen()
    wf = []
    for _ in range(rng.randint(1, 3)):
        r = rng.random()
        if r < 0.5:
            body = gen_bodies(rng, ids, True, True)
            if rng.random() < 0.3:
                body.append({'t': 'body', 'id': ids(), 'kind': 'perturb',
                             'arg': round(rng.uniform(1e-4, 3e-2), 6)})
            wf.append({'t': 'foreach', 'body': body,
                       'filter': rng.choice(['all', 'all', 'wide', 'even']),
                       'replace': rng.choice(['always', 'always', 'never',
                                              'smaller', 'even']),
                       'err': rng.random() < 0.6})
        elif r < 0.75:
            nb = rng.randint(2, 4)
            branches = []
            for _ in range(nb):
                if rng.random() < 0.3:
                    branches.append([{
                        't': 'foreach',
                        'body': gen_bodies(rng, ids, True, False),
                        'filter': 'all', 'replace': 'always',
                        'err': False}])
                else:
                    branches.append(gen_bodies(rng, ids, False, False))
            wf.append({'t': 'pdo', 'branches': branches,
                       'pick_first': rng.random() < 0.5})
        elif r < 0.85:
            # a ForEach inside a DoThenDecide: a rejection must also take
            # back the block data the ForEach recorded
            inner = {'t': 'foreach',
                     'body': gen_bodies(rng, ids, True, False),
                     'filter': rng.choice(['all', 'wide']),
                     'replace': rng.choice(['always', 'even']),
                     'err': rng.random() < 0.5}
            pre = gen_bodies(rng, ids, False, False) \
                if rng.random() < 0.5 else []
            wf.append({'t': 'dtd', 'id': ids(),
                       'verdict': rng.random() < 0.5,
                       'body': pre + [inner]})
        else:
            wf.extend(gen_bodies(rng, ids, False, True))
    return wf
