"""Inputs, models and options for real `bqskit.compile()` runs under the
simulator (C01-C03), as JSON-able specs plus builders."""
from __future__ import annotations

import random

import numpy as np


# ------------------------------------------------------------- models
def build_model(spec: dict):
    from bqskit.compiler.machine import MachineModel
    from bqskit.ir.gates import CNOTGate
    from bqskit.ir.gates import CSUMGate
    from bqskit.ir.gates import CZGate
    from bqskit.ir.gates import ISwapGate
    from bqskit.ir.gates import RYGate
    from bqskit.ir.gates import RZGate
    from bqskit.ir.gates import SqrtXGate
    from bqskit.ir.gates import U3Gate
    from bqskit.qis.graph import CouplingGraph
    m, d = spec['n'], spec.get('d', 2)
    g = spec['graph']
    if g == 'line':
        cg = CouplingGraph.linear(m)
    elif g == 'ring':
        cg = CouplingGraph.ring(m) if m > 2 else CouplingGraph.linear(m)
    elif g == 'star':
        cg = CouplingGraph.star(m) if m > 1 else CouplingGraph.linear(m)
    else:
        cg = CouplingGraph.all_to_all(m)
    gs = spec['gateset']
    if gs == 'default':
        gate_set = None
    elif gs == 'cz_rz_sx':
        gate_set = {CZGate(), RZGate(), SqrtXGate()}
    elif gs == 'cx_rz_ry':
        gate_set = {CNOTGate(), RZGate(), RYGate()}
    elif gs == 'iswap_u3':
        gate_set = {ISwapGate(), U3Gate()}
    elif gs == 'cx_u1_rx':
        from bqskit.ir.gates import RXGate
        from bqskit.ir.gates import U1Gate
        gate_set = {CNOTGate(), U1Gate(), RXGate()}
    elif gs == 'cx_u1_rx_sx':
        from bqskit.ir.gates import RXGate
        from bqskit.ir.gates import U1Gate
        gate_set = {CNOTGate(), U1Gate(), RXGate(), SqrtXGate()}
    elif gs == 'cx_rz_sx':
        gate_set = {CNOTGate(), RZGate(), SqrtXGate()}
    elif gs == 'cz_u3':
        gate_set = {CZGate(), U3Gate()}
    elif gs == 'cx_rz_rx':
        from bqskit.ir.gates import RXGate
        gate_set = {CNOTGate(), RZGate(), RXGate()}
    elif gs == 'cx_u2':
        # a lone single-qudit gate that is universal only when repeated
        from bqskit.ir.gates import U2Gate
        gate_set = {CNOTGate(), U2Gate()}
    elif gs == 'cx_u1q':
        from bqskit.ir.gates import U1qGate
        gate_set = {CNOTGate(), U1qGate()}
    else:
        raise AssertionError(gs)
    return MachineModel(m, cg, gate_set, [d] * m)


def gen_model(rng: random.Random, n: int, d: int = 2,
              max_extra: int = 2) -> dict:
    m = n + (rng.randint(0, max_extra) if rng.random() < 0.4 else 0)
    return {
        'n': m, 'd': d,
        'graph': rng.choice(['line', 'ring', 'star', 'all'])
        if m > 1 else 'all',
        'gateset': rng.choice(['default', 'default', 'cz_rz_sx',
                               'cx_rz_ry', 'iswap_u3', 'cx_u1_rx',
                               'cx_u1_rx_sx', 'cx_rz_sx', 'cz_u3',
                               'cx_rz_rx', 'cx_u2', 'cx_u1q']) if d == 2
        else 'default',
    }


# ------------------------------------------------------------- circuits
GATES1 = ['h', 'x', 't', 'sx', 'rz', 'ry', 'u3']
GATES2 = ['cx', 'cz', 'swap', 'iswap', 'crz']
GATES3 = ['ccx']


def gen_circuit(rng: random.Random, n: int, depth: int,
                p3: float = 0.1, barriers: bool = True,
                blocks: bool = True) -> dict:
    gates = []
    for _ in range(depth):
        r = rng.random()
        if n >= 3 and r < p3:
            gates.append({'g': 'ccx', 'q': rng.sample(range(n), 3)})
        elif n >= 2 and r < 0.55:
            g = rng.choice(GATES2)
            item = {'g': g, 'q': rng.sample(range(n), 2)}
            if g == 'crz':
                item['p'] = [round(rng.uniform(-3, 3), 6)]
            gates.append(item)
        elif barriers and n >= 2 and r < 0.6:
            gates.append({'g': 'barrier',
                          'q': sorted(rng.sample(range(n),
                                                 rng.randint(2, n)))})
        else:
            g = rng.choice(GATES1)
            item = {'g': g, 'q': [rng.randrange(n)]}
            if g in ('rz', 'ry'):
                item['p'] = [round(rng.uniform(-3, 3), 6)]
            elif g == 'u3':
                item['p'] = [round(rng.uniform(-3, 3), 6) for _ in range(3)]
            gates.append(item)
    if blocks and n >= 2 and rng.random() < 0.25:
        q = sorted(rng.sample(range(n), 2))
        gates.insert(rng.randrange(len(gates) + 1), {
            'g': 'block', 'q': q,
            'ops': [{'g': 'h', 'q': [0]}, {'g': 'cx', 'q': [0, 1]},
                    {'g': 'rz', 'q': [1], 'p': [0.37]}]})
    spec = {'kind': 'circuit', 'n': n, 'gates': gates}
    if rng.random() < 0.3:
        spec['measure'] = sorted(rng.sample(range(n), rng.randint(1, n)))
    return spec


def build_circuit(spec: dict):
    from bqskit.ir.circuit import Circuit
    from bqskit.ir.gates import BarrierPlaceholder
    from bqskit.ir.gates import CCXGate
    from bqskit.ir.gates import CircuitGate
    from bqskit.ir.gates import CNOTGate
    from bqskit.ir.gates import CRZGate
    from bqskit.ir.gates import CZGate
    from bqskit.ir.gates import HGate
    from bqskit.ir.gates import ISwapGate
    from bqskit.ir.gates import RYGate
    from bqskit.ir.gates import RZGate
    from bqskit.ir.gates import SwapGate
    from bqskit.ir.gates import SXGate
    from bqskit.ir.gates import TGate
    from bqskit.ir.gates import U3Gate
    from bqskit.ir.gates import XGate
    table = {'h': HGate, 'x': XGate, 't': TGate, 'sx': SXGate,
             'rz': RZGate, 'ry': RYGate, 'u3': U3Gate, 'cx': CNOTGate,
             'cz': CZGate, 'swap': SwapGate, 'iswap': ISwapGate,
             'crz': CRZGate, 'ccx': CCXGate}

    def add(c, g):
        if g['g'] == 'barrier':
            c.append_gate(BarrierPlaceholder(len(g['q'])), g['q'])
        elif g['g'] == 'block':
            sub = Circuit(len(g['q']))
            for o in g['ops']:
                add(sub, o)
            c.append_gate(CircuitGate(sub), g['q'], sub.params)
        else:
            c.append_gate(table[g['g']](), g['q'], g.get('p', []))

    c = Circuit(spec['n'])
    for g in spec['gates']:
        add(c, g)
    if spec.get('measure'):
        from bqskit.ir.gates import MeasurementPlaceholder
        qs = list(spec['measure'])
        mph = MeasurementPlaceholder([('c', spec['n'])],
                                     {q: ('c', q) for q in qs})
        c.append_gate(mph, qs)
    return c


# ------------------------------------------------- unitaries and states
def build_target(spec: dict):
    """unitary / state / system specs -> BQSKit objects (deterministic
    from the spec's own seed)."""
    from bqskit.qis.state.state import StateVector
    from bqskit.qis.state.system import StateSystem
    from bqskit.qis.unitary.unitarymatrix import UnitaryMatrix
    n, d = spec['n'], spec.get('d', 2)
    dim = d ** n
    rs = np.random.RandomState(spec.get('seed', 0))

    def haar():
        z = (rs.randn(dim, dim) + 1j * rs.randn(dim, dim)) / np.sqrt(2)
        q, r = np.linalg.qr(z)
        ph = np.diag(r) / np.abs(np.diag(r))
        return q * ph

    def unitary(gen):
        if gen == 'haar':
            return haar()
        if gen == 'perm':
            return np.eye(dim)[rs.permutation(dim)].astype(complex)
        if gen == 'diag':
            return np.diag(np.exp(1j * rs.uniform(-3, 3, dim)))
        if gen == 'ident':
            return np.eye(dim, dtype=complex)
        if gen == 'near':
            h = rs.randn(dim, dim) + 1j * rs.randn(dim, dim)
            h = (h + h.conj().T) * 0.01
            w, v = np.linalg.eigh(h)
            return (v * np.exp(1j * w)) @ v.conj().T
        if gen == 'qperm':
            # local single-qudit unitaries followed by a relabelling of
            # the qudits (a cyclic shift): cheapest with an output
            # permutation that is not an involution
            loc = np.eye(1, dtype=complex)
            for _ in range(n):
                z = (rs.randn(d, d) + 1j * rs.randn(d, d))
                q, r = np.linalg.qr(z)
                loc = np.kron(loc, q)
            shift = [(i + 1) % n for i in range(n)]
            P = np.zeros((dim, dim))
            for x in range(dim):
                digits = [(x // d ** (n - 1 - i)) % d for i in range(n)]
                y = sum(digits[shift[i]] * d ** (n - 1 - i)
                        for i in range(n))
                P[y, x] = 1
            return P @ loc
        if gen == 'circ':
            cs = gen_circuit(random.Random(spec.get('seed', 0)), n, 6,
                             barriers=False, blocks=False)
            cs.pop('measure', None)
            c = build_circuit(cs)
            return np.array(c.get_unitary().numpy)
        raise AssertionError(gen)

    k = spec['kind']
    if k == 'unitary':
        return UnitaryMatrix(unitary(spec['gen']), [d] * n)
    if k == 'state':
        g = spec['gen']
        if g == 'random':
            v = rs.randn(dim) + 1j * rs.randn(dim)
        elif g == 'basis':
            v = np.zeros(dim, dtype=complex)
            v[rs.randint(dim)] = 1
        elif g == 'ghz':
            v = np.zeros(dim, dtype=complex)
            v[0] = v[-1] = 1
        else:  # w
            v = np.zeros(dim, dtype=complex)
            for i in range(n):
                v[d ** i] = 1
        v = v / np.linalg.norm(v)
        return StateVector(v, [d] * n)
    if k == 'system':
        u = unitary(spec.get('gen', 'haar'))
        idx = list(rs.permutation(dim)[:spec['pairs']])
        return StateSystem({
            StateVector(np.eye(dim)[j], [d] * n):
            StateVector(u @ np.eye(dim)[j], [d] * n) for j in idx})
    raise AssertionError(k)


def build_input(spec: dict):
    if spec['kind'] == 'circuit':
        return build_circuit(spec)
    if spec['kind'] == 'list':
        return [build_input(s) for s in spec['items']]
    return build_target(spec)


def gen_target(rng: random.Random, kinds: list[str], qutrits: bool,
               max_n: int = 2) -> dict:
    k = rng.choice(kinds)
    d = 3 if (qutrits and rng.random() < 0.2) else 2
    n = rng.randint(1, max_n if d == 2 else min(2, max_n))
    seed = rng.randrange(10 ** 6)
    if k == 'unitary':
        gen = rng.choice(['haar', 'perm', 'diag', 'ident', 'near', 'circ']
                         if d == 2 else ['haar', 'perm', 'diag', 'ident'])
        if n >= 3 and gen == 'haar':
            gen = 'circ'
        return {'kind': 'unitary', 'n': n, 'd': d, 'gen': gen, 'seed': seed}
    if k == 'state':
        return {'kind': 'state', 'n': n, 'd': d, 'seed': seed,
                'gen': rng.choice(['random', 'basis', 'ghz', 'w'])}
    return {'kind': 'system', 'n': n, 'd': d, 'seed': seed,
            'pairs': rng.randint(1, d ** n), 'gen': 'haar'}
