"""Task-tree programs: generator and sequential reference model.

A program is a JSON-able tree of nodes; see bodies.py for the interpreter
that runs it on the real runtime.  The reference model computes, without
any runtime, the value every node must return (values are made schedule
independent by construction), which nodes must run exactly once and which
may run zero or one times (descendants of a cancelled future, or work of a
compilation that failed or was cancelled).
"""
from __future__ import annotations

import random

CONSUME_PLAIN = ['await', 'next_all', 'next_then_await']
CONSUME_CANCEL = ['cancel', 'next_then_cancel', 'next_then_drop', 'drop']


class Gen:
    def __init__(self, rng: random.Random, *, max_nodes=40, max_depth=4,
                 max_fanout=5, cancels=False, raises=0, logs=False,
                 payloads=False, id_base=0, await_cancelled=False,
                 spins=True) -> None:
        self.rng = rng
        self.max_nodes = max_nodes
        self.max_depth = max_depth
        self.max_fanout = max_fanout
        self.cancels = cancels
        self.raises = raises
        self.logs = logs
        self.payloads = payloads
        self.await_cancelled = await_cancelled
        self.spins = spins
        self.n = 0
        self.id_base = id_base
        self.fn = 0

    def new_id(self) -> int:
        self.n += 1
        return self.id_base + self.n

    def leaf(self) -> dict:
        r = self.rng
        node = {'id': self.new_id(), 'salt': r.randrange(10 ** 6),
                'kind': 'sync', 'ops': []}
        if self.payloads and r.random() < 0.3:
            node['payload'] = r.choice(['circuit', 'unitary', 'passdata'])
        if self.logs and r.random() < 0.15:
            node['log'] = f'LOGMARK-{node["id"]}'
        return node

    def node(self, depth: int, root: bool = False) -> dict:
        r = self.rng
        budget = self.max_nodes - self.n
        if not root and (depth >= self.max_depth or budget <= 1
                         or r.random() < 0.35):
            return self.leaf()
        node = {'id': self.new_id(), 'salt': r.randrange(10 ** 6),
                'kind': 'async', 'ops': []}
        nfut = r.choice([1, 1, 2, 2, 3]) if budget > 3 else 1
        futs = []
        for _ in range(nfut):
            if self.max_nodes - self.n <= 0:
                break
            self.fn += 1
            f = f'f{self.fn}'
            if r.random() < 0.45:
                ch = self.node(depth + 1)
                create = {'op': 'submit', 'f': f, 'child': ch}
                size = 1
            else:
                room = max(1, min(self.max_fanout,
                                  self.max_nodes - self.n))
                k = r.randint(1, room)
                if r.random() < 0.4:
                    chs = [self.leaf() for _ in range(k)]
                    fn = 'sync'
                else:
                    chs = [self.node(depth + 1) for _ in range(k)]
                    for c in chs:
                        if c['kind'] == 'sync':
                            c['kind'] = 'async'  # run_node handles leaves
                    fn = 'async'
                create = {'op': 'map', 'f': f, 'children': chs, 'fn': fn}
                size = k
            futs.append((f, create, size))
        # consumption mode per future
        plan = []
        for f, create, size in futs:
            is_map = create['op'] == 'map'
            if self.cancels and r.random() < 0.5:
                mode = r.choice(CONSUME_CANCEL if is_map
                                else ['cancel', 'drop'])
            else:
                mode = r.choice(CONSUME_PLAIN if is_map else ['await'])
            plan.append((f, create, size, mode))
        ops = []
        if r.random() < 0.5:
            # create all, then consume in random order
            for f, create, size, mode in plan:
                ops.append(create)
            order = list(plan)
            r.shuffle(order)
            for f, create, size, mode in order:
                ops.extend(self.consume(f, size, mode))
        else:
            for f, create, size, mode in plan:
                ops.append(create)
                ops.extend(self.consume(f, size, mode))
        if self.spins and r.random() < 0.25:
            ops.insert(r.randrange(len(ops) + 1),
                       {'op': 'spin', 'n': r.randint(1, 3)})
        if self.logs and r.random() < 0.3:
            ops.insert(r.randrange(len(ops) + 1),
                       {'op': 'log', 'marker': f'LOGMARK-{node["id"]}'})
        node['ops'] = ops
        if self.payloads and r.random() < 0.2:
            node['payload'] = r.choice(['circuit', 'unitary', 'passdata'])
        return node

    def consume(self, f: str, size: int, mode: str) -> list:
        r = self.rng
        if mode == 'await':
            ops = [{'op': 'await', 'f': f}]
            if self.cancels and r.random() < 0.2:
                ops.append({'op': 'try_next', 'f': f})
            return ops
        if mode == 'next_all':
            ops = [{'op': 'next_all', 'f': f}]
            if r.random() < 0.3:
                ops.append({'op': 'await', 'f': f})
            elif self.cancels and r.random() < 0.3:
                ops.append({'op': 'cancel', 'f': f})
            return ops
        if mode == 'next_then_await':
            return [{'op': 'next_then_await', 'f': f,
                     'k': r.randint(1, min(2, size))}]
        if mode == 'next_then_cancel':
            ops = [{'op': 'next_then_cancel', 'f': f, 'k': 1}]
            if r.random() < 0.3:
                ops.append({'op': 'try_next', 'f': f})
            return ops
        if mode == 'next_then_drop':
            return [{'op': 'next_then_drop', 'f': f, 'k': 1}]
        if mode == 'cancel':
            ops = [{'op': 'cancel', 'f': f}]
            if r.random() < 0.3:
                ops.append({'op': 'try_next', 'f': f})
            return ops
        if mode == 'drop':
            return []
        raise AssertionError(mode)


def gen_program(rng: random.Random, **kw) -> dict:
    g = Gen(rng, **kw)
    prog = g.node(0, root=True)
    if g.raises:
        place_raises(rng, prog, g.raises)
    if g.await_cancelled:
        place_await_cancelled(rng, prog)
    return prog


def walk(node: dict):
    """Yield (node, parent, future name) for every node."""
    stack = [(node, None, None)]
    while stack:
        n, p, f = stack.pop()
        yield n, p, f
        for op in n['ops']:
            if op['op'] == 'submit':
                stack.append((op['child'], n, op['f']))
            elif op['op'] == 'map':
                for c in op['children']:
                    stack.append((c, n, op['f']))


def count_nodes(node: dict) -> int:
    return sum(1 for _ in walk(node))


def place_raises(rng: random.Random, prog: dict, n: int) -> None:
    nodes = [x for x, p, f in walk(prog)]
    for x in rng.sample(nodes, min(n, len(nodes))):
        marker = f'MARKER-{x["id"]}-{rng.randrange(10 ** 6)}'
        if x['kind'] == 'sync' and not x['ops']:
            x['raise'] = marker
        else:
            x['ops'].insert(rng.randrange(len(x['ops']) + 1),
                            {'op': 'raise', 'marker': marker})


FOREIGN_MSG = 'Can only await on a BQSKit RuntimeFuture'


def place_foreign_await(rng: random.Random, prog: dict) -> None:
    """One task awaits something that is not a runtime future (a bare
    yield, as `await asyncio.sleep(0)` does): the runtime must fail that
    compilation with its own message, like any other task error."""
    nodes = [x for x, p, f in walk(prog) if x['kind'] == 'async']
    if nodes:
        x = rng.choice(nodes)
        x['ops'].insert(rng.randrange(len(x['ops']) + 1),
                        {'op': 'await_foreign', 'marker': FOREIGN_MSG})


def place_busy(rng: random.Random, prog: dict, n: int) -> None:
    """Mark up to n nodes as long-running steps (simulated seconds)."""
    nodes = [x for x, p, f in walk(prog)]
    for x in rng.sample(nodes, min(n, len(nodes))):
        x['busy'] = rng.choice([90, 600, 7200])


def place_await_cancelled(rng: random.Random, prog: dict) -> None:
    """Turn one explicit cancel into cancel + await of the dead future."""
    cands = []
    for x, p, f in walk(prog):
        for i, op in enumerate(x['ops']):
            if op['op'] in ('cancel', 'next_then_cancel'):
                cands.append((x, i, op['f']))
    if cands:
        x, i, f = rng.choice(cands)
        x['ops'].insert(i + 1, {'op': 'await_cancelled', 'f': f})


# ---------------------------------------------------------------- reference
class Ref:
    """Sequential reference semantics of a program."""

    def __init__(self, prog: dict) -> None:
        self.prog = prog
        self.values: dict[int, object] = {}
        self.must_run: set[int] = set()
        self.may_run: set[int] = set()
        self.cancel_roots: set[int] = set()  # nodes directly under a
        # cancelled/dropped future
        self.fails = None       # marker / message the compilation fails with
        self.fail_markers: set[str] = set()      # must fail with one
        self.may_fail_markers: set[str] = set()  # raised only in may-run
        self.parent: dict[int, int | None] = {}
        self.future_of: dict[int, tuple[int, str]] = {}
        self.nodes: dict[int, dict] = {}
        self.log_markers: set[str] = set()
        self.fut_vals: dict[tuple[int, str], object] = {}
        self.fut_children: dict[tuple[int, str], list[int]] = {}
        self.fut_kind: dict[tuple[int, str], str] = {}
        self.fut_fate: dict[tuple[int, str], str | None] = {}
        self._eval(prog, None, None, cancelled=False)
        self.root_value = self.values.get(prog['id'])

    def _eval(self, node, parent, fut, cancelled: bool):
        from dst.workload.bodies import make_payload
        nid = node['id']
        self.nodes[nid] = node
        self.parent[nid] = None if parent is None else parent['id']
        if fut is not None:
            self.future_of[nid] = (parent['id'], fut)
        (self.may_run if cancelled else self.must_run).add(nid)
        if node.get('log'):
            self.log_markers.add(node['log'])
        children: dict[str, list] = {}
        kinds: dict[str, str] = {}
        fate: dict[str, str] = {}
        for op in node['ops']:
            if op['op'] == 'submit':
                children[op['f']] = [op['child']]
                kinds[op['f']] = 'submit'
            elif op['op'] == 'map':
                children[op['f']] = op['children']
                kinds[op['f']] = 'map'
        # which futures end up cancelled (explicitly, or implicitly at task
        # completion because they were never fully awaited)
        consumed = set()
        raised_at = None
        for i, op in enumerate(node['ops']):
            k = op['op']
            if k in ('raise', 'await_foreign'):
                raised_at = i
                break
            if k == 'await_cancelled':
                raised_at = i
                break
            if k in ('await', 'next_then_await'):
                consumed.add(op['f'])
                fate[op['f']] = 'awaited'
            elif k in ('cancel', 'next_then_cancel'):
                fate[op['f']] = 'cancelled'
            elif k == 'next_all':
                fate.setdefault(op['f'], 'nexted')
            elif k == 'log':
                self.log_markers.add(op['marker'])
        if node.get('raise'):
            raised_at = -1
        created_before_raise = set()
        for i, op in enumerate(node['ops']):
            if raised_at is not None and raised_at >= 0 and i >= raised_at:
                break
            if op['op'] in ('submit', 'map'):
                created_before_raise.add(op['f'])
        obs = []
        vals: dict[str, object] = {}
        for f, chs in children.items():
            if raised_at is not None and f not in created_before_raise:
                # never created: these nodes never run
                for c in chs:
                    self._mark_never(c)
                continue
            fa = fate.get(f)
            # next_all consumes every result, so all children complete even
            # if the mailbox is cancelled or dropped afterwards
            child_cancelled = cancelled or fa in (None, 'cancelled') \
                or raised_at is not None
            if fa == 'nexted':
                child_cancelled = cancelled or raised_at is not None
            if fa is None or fa == 'cancelled':
                for c in chs:
                    self.cancel_roots.add(c['id'])
            cv = [self._eval(c, node, f, child_cancelled) for c in chs]
            vals[f] = cv[0] if kinds[f] == 'submit' else cv
            self.fut_vals[(nid, f)] = vals[f]
            self.fut_children[(nid, f)] = [c['id'] for c in chs]
            self.fut_kind[(nid, f)] = kinds[f]
            self.fut_fate[(nid, f)] = fa
        if raised_at is not None:
            if node.get('raise'):
                m = node['raise']
            else:
                op = node['ops'][raised_at]
                m = op.get('marker', 'Cannot await on a canceled task')
            (self.may_fail_markers if cancelled
             else self.fail_markers).add(m)
            self.values[nid] = None
            return None
        for op in node['ops']:
            k = op['op']
            if k in ('await', 'next_then_await'):
                obs.append(vals[op['f']])
            elif k == 'next_all':
                obs.append(vals[op['f']])
            elif k in ('cancel', 'next_then_cancel'):
                obs.append('cancelled')
            elif k == 'next_then_drop':
                obs.append('dropped')
            elif k == 'try_next':
                obs.append('refused')
        v = [nid, node['salt'], obs]
        if node.get('payload'):
            v.append(make_payload(node['payload'], nid))
        self.values[nid] = v
        return v

    def _mark_never(self, node) -> None:
        for x, p, f in walk(node):
            self.nodes[x['id']] = x
            self.values[x['id']] = None
            # never created => must not run; tracked by absence from both

    def ancestors(self, nid: int) -> list[int]:
        out = []
        p = self.parent.get(nid)
        while p is not None:
            out.append(p)
            p = self.parent.get(p)
        return out


def values_equal(a, b) -> bool:
    """Structural equality that tolerates list/tuple differences and
    compares rich payloads with their own __eq__ / matrices numerically."""
    import numpy as np
    if isinstance(a, (list, tuple)) and isinstance(b, (list, tuple)):
        return len(a) == len(b) and all(values_equal(x, y)
                                        for x, y in zip(a, b))
    if isinstance(a, (list, tuple)) != isinstance(b, (list, tuple)):
        return False
    try:
        from bqskit.compiler.passdata import PassData
        if isinstance(a, PassData) and isinstance(b, PassData):
            return (dict(a._data) == dict(b._data)
                    and a.initial_mapping == b.initial_mapping
                    and a.final_mapping == b.final_mapping
                    and a.placement == b.placement)
    except Exception:
        pass
    try:
        r = (a == b)
        if isinstance(r, np.ndarray):
            return bool(r.all())
        return bool(r)
    except Exception:
        return False
