"""Task bodies interpreting the task-tree DSL (see tasktree.py) on top of the
public runtime API (`get_runtime().submit/map/next/cancel`, `await`).

Module-level so dill ships them by reference.  Every body appends events to
`REC` stamped with the simulator's global event sequence number; the
recorder is harness state (all nodes live in one interpreter) and is not
part of the system under test.
"""
from __future__ import annotations

import logging

from bqskit.compiler.basepass import BasePass
from bqskit.runtime import get_runtime

REC: list[tuple] = []
SIM = [None]
blog = logging.getLogger('verif.bodies')


def rec(*a) -> None:
    sim = SIM[0]
    if sim is None:
        REC.append((0,) + a)
        return
    t = sim.cur_or_none()
    if t is not None and t.node.dead:
        return
    if a[0] in ('start', 'finish', 'raise', 'cancel-issued'):
        sim.log('BODY', a[0], a[1], t.node.name if t is not None else '?')
    else:
        sim.seq += 1
    REC.append((sim.seq,) + a)


def _wid():
    """(worker id, runtime address of the running task)."""
    try:
        w = get_runtime()
        t = w._active_task
        return (w._id, tuple(t.return_address) if t is not None else None)
    except Exception:
        return (-99, None)


def make_payload(kind: str, nid: int):
    """Deterministic rich payloads for the transport monitor."""
    if kind == 'circuit':
        from bqskit.ir.circuit import Circuit
        from bqskit.ir.gates import CNOTGate
        from bqskit.ir.gates import HGate
        from bqskit.ir.gates import RZGate
        c = Circuit(2)
        c.append_gate(HGate(), nid % 2)
        c.append_gate(RZGate(), (nid + 1) % 2, [0.001 * nid])
        c.append_gate(CNOTGate(), (nid % 2, (nid + 1) % 2))
        return c
    if kind == 'unitary':
        from bqskit.ir.gates import U3Gate
        return U3Gate().get_unitary([0.01 * nid, 0.02 * nid, 0.03 * nid])
    if kind == 'passdata':
        from bqskit.compiler.passdata import PassData
        from bqskit.ir.circuit import Circuit
        d = PassData(Circuit(2))
        d['k'] = nid
        d.initial_mapping = [1, 0] if nid % 2 else [0, 1]
        return d
    return None


def trivial(x):
    return ('t', x)


class _BareYield:
    """Awaitable that is not a RuntimeFuture (what asyncio.sleep(0)
    amounts to): yields None to whoever drives the coroutine."""

    def __await__(self):
        yield


def _busy(spec) -> None:
    """A long non-yielding step (numerical kernel): the worker's main
    thread is occupied for `busy` simulated seconds."""
    d = spec.get('busy')
    sim = SIM[0]
    if d and sim is not None:
        sim.count('probe.busy_step')
        sim.sleep(d)


def sync_node(spec):
    rec('start', spec['id'], _wid())
    _busy(spec)
    if spec.get('raise'):
        rec('raise', spec['id'], spec['raise'])
        raise ValueError(spec['raise'])
    if spec.get('log'):
        blog.warning(spec['log'])
    rec('finish', spec['id'])
    return node_value(spec, [])


def node_value(spec, obs):
    v = [spec['id'], spec['salt'], obs]
    if spec.get('payload'):
        v.append(make_payload(spec['payload'], spec['id']))
    return v


async def run_node(spec):
    rec('start', spec['id'], _wid())
    _busy(spec)
    if spec.get('raise'):
        rec('raise', spec['id'], spec['raise'])
        raise ValueError(spec['raise'])
    if spec.get('log'):
        blog.warning(spec['log'])
    obs = await run_ops(spec)
    rec('finish', spec['id'])
    return node_value(spec, obs)


def _launch(rt, op):
    if op['op'] == 'submit':
        ch = op['child']
        fn = sync_node if ch['kind'] == 'sync' else run_node
        return rt.submit(fn, ch)
    fn = sync_node if op['fn'] == 'sync' else run_node
    return rt.map(fn, op['children'])


async def run_ops(spec):
    rt = get_runtime()
    nid = spec['id']
    env = {}
    sizes = {}
    obs = []
    for i, op in enumerate(spec['ops']):
        k = op['op']
        if k in ('submit', 'map'):
            env[op['f']] = _launch(rt, op)
            sizes[op['f']] = 1 if k == 'submit' else len(op['children'])
        elif k == 'await':
            v = await env[op['f']]
            rec('obs', nid, i, op['f'], v)
            obs.append(v)
        elif k == 'next_all':
            n = sizes[op['f']]
            got = {}
            guard = 0
            while len(got) < n:
                batch = await rt.next(env[op['f']])
                rec('batch', nid, i, op['f'], list(batch))
                for idx, v in batch:
                    got.setdefault(idx, v)
                guard += 1
                if guard > 4 * n + 8:
                    rec('next-livelock', nid, i, op['f'])
                    break
            obs.append([got.get(j) for j in range(n)])
        elif k in ('next_then_await', 'next_then_cancel', 'next_then_drop'):
            for _ in range(op['k']):
                batch = await rt.next(env[op['f']])
                rec('batch', nid, i, op['f'], list(batch))
            if k == 'next_then_await':
                v = await env[op['f']]
                rec('obs', nid, i, op['f'], v)
                obs.append(v)
            elif k == 'next_then_cancel':
                rec('cancel-issued', nid, i, op['f'])
                rt.cancel(env[op['f']])
                rec('cancel-done', nid, i, op['f'])
                obs.append('cancelled')
            else:
                obs.append('dropped')
        elif k == 'cancel':
            rec('cancel-issued', nid, i, op['f'])
            rt.cancel(env[op['f']])
            rec('cancel-done', nid, i, op['f'])
            obs.append('cancelled')
        elif k == 'try_next':
            try:
                batch = await rt.next(env[op['f']])
            except RuntimeError as e:
                rec('next-refused', nid, i, op['f'], str(e)[:80])
                obs.append('refused')
            else:
                rec('next-accepted', nid, i, op['f'], list(batch))
                obs.append('refused')  # value stays schedule independent
        elif k == 'await_cancelled':
            rec('await-cancelled', nid, i, op['f'])
            v = await env[op['f']]
            rec('obs-cancelled', nid, i, op['f'], v)
            obs.append(v)
        elif k == 'raise':
            rec('raise', nid, op['marker'])
            raise ValueError(op['marker'])
        elif k == 'await_foreign':
            rec('raise', nid, op['marker'])
            await _BareYield()
            rec('foreign-await-returned', nid, i)
        elif k == 'log':
            blog.warning(op['marker'])
        elif k == 'spin':
            for j in range(op['n']):
                v = await rt.submit(trivial, (nid, j))
                if v != ('t', (nid, j)):
                    rec('spin-wrong', nid, i, j, v)
        else:
            raise AssertionError(f'unknown op {k}')
    return obs


class TreePass(BasePass):
    """Root of a task tree: the compilation task itself runs the root
    node's ops."""

    def __init__(self, spec: dict) -> None:
        self.spec = spec

    async def run(self, circuit, data) -> None:
        spec = self.spec
        rec('start', spec['id'], _wid())
        obs = await run_ops(spec)
        rec('finish', spec['id'])
        data['out'] = node_value(spec, obs)
