"""Engine dispatch."""
from __future__ import annotations


def execute(scn: dict, decisions=None, verbose=False, lenient=False):
    # A scenario is executed in its JSON form, whatever produced it: a
    # replay file stores lists where a generator made tuples, and pickled
    # payload sizes (part of the trace digest) would differ otherwise.
    import json
    scn = json.loads(json.dumps(scn))
    eng = scn.get('engine', 'simrt')
    if eng == 'simrt':
        from dst import simrt
        return simrt.execute(scn, decisions, verbose, lenient)
    if eng == 'simpass':
        from dst import simpass
        return simpass.execute(scn, decisions, verbose, lenient)
    if eng == 'simcompile':
        from dst import simcompile
        return simcompile.execute(scn, decisions, verbose, lenient)
    raise ValueError(eng)
