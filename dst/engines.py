"""Engine dispatch."""
from __future__ import annotations


def execute(scn: dict, decisions=None, verbose=False, lenient=False):
    eng = scn.get('engine', 'simrt')
    if eng == 'simrt':
        from dst import simrt
        return simrt.execute(scn, decisions, verbose, lenient)
    if eng == 'simpass':
        from dst import simpass
        return simpass.execute(scn, decisions, verbose, lenient)
    if eng == 'simcompile':
        from dst import simcompile
        return simcompile.execute(scn, decisions, verbose, lenient)
    raise ValueError(eng)
