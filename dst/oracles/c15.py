"""C15: scheduler bookkeeping stays in bounds and assigns every task
exactly once."""
from __future__ import annotations

import collections

from dst.oracles import common as C


def check(rr) -> list:
    if rr.status != 'ok':
        return []
    out = list(rr.monitor_violations)
    info = rr.info = getattr(rr, 'info', {})
    mon = getattr(rr, 'info_monitors', None)
    info['monitor_checks'] = mon.checked if mon else 0
    # 2. the runtime's own assertion / read-receipt error never fire
    out += C.thread_failures(rr, ignore=[r'^(c|w)/'])
    for seq, label, desc in C.error_messages(rr):
        text = desc[2] if len(desc) > 2 else ''
        if desc[1] is None or 'Read receipt' in text \
                or 'AssertionError' in text:
            kind = 'read-receipt' if 'Read receipt' in text else \
                ('assertion' if 'AssertionError' in text else 'system')
            out.append(C.V('SYSTEM_ERROR', f'{label.split(">")[0][:1]}',
                           f'system error on {label}: {text}', kind))
            break
    if C.hung(rr):
        info['hung'] = 1
        out += assignment(rr, info, complete=False)
        return C._dedup(out)
    out += assignment(rr, info, complete=True)
    out += idle_belief(rr, info)
    # probes
    info['waiting_corrections'] = waiting_corrections(rr)
    C.reach_probes(rr, info)
    return C._dedup(out)


def assignment(rr, info, complete: bool) -> list:
    """Every task that entered the system reached exactly one worker."""
    out = []
    workers = {n.name for n in rr.sim.nodes.values() if n.kind == 'worker'}
    entered = set()
    got = collections.Counter()
    for seq, ev, src, dst, desc in C.wire(rr):
        if ev == 'SEND':
            for a, p in C.submit_addrs(desc):
                entered.add(a)
        elif ev == 'RECV' and dst in workers:
            for a, p in C.submit_addrs(desc):
                got[a] += 1
    info['tasks_entered'] = len(entered)
    for a in sorted(entered):
        n = got.get(a, 0)
        if n > 1:
            out.append(C.V('ASSIGN_COUNT(2+)', 'task',
                           f'task {a} was delivered to {n} workers'))
        elif n == 0 and complete:
            out.append(C.V('ASSIGN_COUNT(0)', 'task',
                           f'task {a} entered the system but reached no '
                           f'worker by idle quiescence'))
    return out


def idle_belief(rr, info) -> list:
    """At idle quiescence a server managing its workers directly believes
    all of them idle with zero outstanding tasks.  Checked through the
    conservation identity num_tasks == delivered - reported, which is exact
    with or without cancellation."""
    out = []
    snap = rr.idle_snapshot
    if snap is None or rr.scn['topo']['kind'] != 'attached':
        return out
    srv = snap['servers'].get('server')
    if srv is None:
        return out
    if 'RuntimeEmployee.num_tasks' in snap['missing']:
        return out
    delivered = collections.Counter()
    reported = collections.Counter()
    unreported = collections.defaultdict(set)
    for seq, ev, src, dst, desc in C.wire(rr):
        if ev != 'RECV':
            continue
        if dst.startswith('w') and src == 'server':
            for a, p in C.submit_addrs(desc):
                delivered[dst] += 1
                unreported[dst].add(a)
        elif dst == 'server' and src.startswith('w'):
            if desc[0] == 'RESULT' and len(desc) >= 3:
                reported[f'w{desc[2]}'] += 1
            elif desc[0] == 'UPDATE' and isinstance(desc[1], int):
                reported[src] -= desc[1]
    cancelled = C.cancelled_addrs(rr)
    info['idle_checks'] = info.get('idle_checks', 0) + 1
    if srv['num_idle_workers'] != srv['total_workers']:
        out.append(C.V('IDLE_BELIEF', 'server.num_idle_workers',
                       f'server believes {srv["num_idle_workers"]} of '
                       f'{srv["total_workers"]} idle at idle quiescence',
                       'after-cancel' if cancelled else 'no-cancel'))
    for e in srv['employees']:
        w = f"w{e['id']}"
        exp = delivered[w] - reported[w]
        if e['num_tasks'] != exp:
            out.append(C.V('CONSERVATION', 'server.employee.num_tasks',
                           f'{w}: num_tasks={e["num_tasks"]} but delivered '
                           f'{delivered[w]} - reported {reported[w]} = {exp}',
                           'high' if e['num_tasks'] > exp else 'low'))
        if e['num_idle_workers'] != e['total_workers']:
            out.append(C.V('IDLE_BELIEF', 'employee.num_idle_workers',
                           f'{w}: believed idle {e["num_idle_workers"]} of '
                           f'{e["total_workers"]}',
                           'after-cancel' if cancelled else 'no-cancel'))
        if e['num_tasks'] != 0:
            out.append(C.V('IDLE_BELIEF', 'employee.num_tasks',
                           f'{w}: num_tasks={e["num_tasks"]} at idle '
                           f'quiescence',
                           'after-cancel' if cancelled else 'no-cancel'))
    return out


def waiting_corrections(rr) -> int:
    """Probe: WAITING messages whose read receipt is older than the last
    batch sent to that employee (the crossing the receipts exist for)."""
    last_sent = {}
    n = 0
    for seq, ev, src, dst, desc in C.wire(rr):
        if ev == 'SEND' and desc[0] == 'SUBMIT_BATCH':
            last_sent[dst] = desc[1][0]
        elif ev == 'RECV' and desc[0] == 'WAITING':
            if src in last_sent and desc[2] != last_sent[src]:
                n += 1
    return n
