"""Shared oracle pieces over a RunRecord.

A violation is a dict {cls, sig, msg}.  `sig` is `class @ site [pattern]`
built from function names / roles / message kinds only (never line numbers
or ids), so that two reports with the same cause get the same signature and
unrelated edits do not change it.
"""
from __future__ import annotations

import collections
import re

from dst.workload import tasktree


def V(cls: str, site: str, msg: str, pattern: str = '') -> dict:
    sig = f'{cls} @ {site}'
    if pattern:
        sig += f' [{pattern}]'
    return {'cls': cls, 'sig': sig, 'msg': msg[:1500]}


def programs_of(rr) -> list:
    """[(client index, op index, name, prog, Ref)] for every program the
    scenario's clients submit or compile."""
    out = []
    for ci, c in enumerate(rr.scn['clients']):
        for i, op in enumerate(c['script']):
            if op['op'] in ('compile', 'submit'):
                out.append((ci, i, op.get('as'), op['prog']))
    return out


def refs_of(rr) -> list:
    if getattr(rr, '_refs', None) is None:
        rr._refs = [(ci, i, name, prog, tasktree.Ref(prog))
                    for ci, i, name, prog in programs_of(rr)]
    return rr._refs


def role_of(thread_name: str) -> str:
    node, _, role = thread_name.partition('/')
    kind = re.sub(r'\d+$', '', node)
    return f'{kind}/{role}'


def blocked_pattern(blocked: list) -> str:
    pats = sorted({f'{role_of(n)}:{why.split(" ")[0]}'
                   for n, st, why in blocked})
    return ','.join(pats)


def check_liveness(rr, allow_client_exc: bool = False) -> list:
    """Every client finished its script by idle quiescence; nothing alive is
    still blocked at final quiescence."""
    out = []
    if rr.status != 'ok':
        return out
    idle_blocked = getattr(rr, 'idle_blocked', None)
    hung = [ci for ci, c in enumerate(rr.clients)
            if not c.get('done_at_idle', False)]
    if hung:
        cb = [b for b in (idle_blocked or [])]
        op = '?'
        c = rr.clients[hung[0]]
        script = rr.scn['clients'][hung[0]]['script']
        done = c.get('ops_done_at_idle', 0)
        if done < len(script):
            op = script[done]['op']
        out.append(V('HANG', f'client.{op}',
                     f'client(s) {hung} never returned; blocked threads at '
                     f'quiescence: {cb}',
                     blocked_pattern([b for b in cb
                                      if not b[0].startswith('c')])))
        return out
    fb = [b for b in (rr.final_blocked or [])]
    if fb:
        out.append(V('NO-EXIT', 'final-quiescence',
                     f'threads still blocked after shutdown: {fb}',
                     blocked_pattern(fb)))
    return out


def thread_failures(rr, ignore=()) -> list:
    out = []
    for name, et, site, msg, tb in rr.sim.thread_failures():
        role = role_of(name)
        if any(re.search(p, f'{role} {et} {site}') for p in ignore):
            continue
        out.append(V('THREAD_DIED', f'{role} {et}@{site}',
                     f'{name}: {et}: {msg}\n{tb}'))
    return out


def error_messages(rr) -> list:
    """ERROR messages that crossed any link: [(seq, label, desc)]."""
    return [(e[0], e[2], e[3]) for e in rr.sim.events
            if e[1] == 'SEND' and e[3][0] == 'ERROR']


def check_no_spurious_errors(rr, expected_markers=()) -> list:
    out = []
    for seq, label, desc in error_messages(rr):
        text = desc[2] if len(desc) > 2 else ''
        if any(m in text for m in expected_markers):
            continue
        m = re.match(r'(\w+(?:\.\w+)*)', text)
        et = m.group(1) if m else 'error'
        out.append(V('SPURIOUS_ERROR', f'{et}',
                     f'ERROR message on {label}: {text}',
                     _error_pattern(rr, seq)))
        break
    return out


def _error_pattern(rr, seq) -> str:
    # function of the last PREEMPT before the error, if any
    last = ''
    for e in rr.sim.events:
        if e[0] > seq:
            break
        if e[1] == 'PREEMPT':
            last = e[3]
    return f'after-preempt:{last}' if last else 'seam-level'


def check_client_values(rr, relax_failed: bool = True) -> list:
    """result()/compile() values equal the reference root value of the
    program they belong to."""
    out = []
    refs = {(ci, i): ref for ci, i, name, prog, ref in refs_of(rr)}
    byname = {(ci, name): ref for ci, i, name, prog, ref in refs_of(rr)
              if name}
    for ci, c in enumerate(rr.clients):
        for h in c['history']:
            if h['kind'] != 'ok' or h['val'][0] != 'value':
                continue
            op = h['op']
            if op['op'] == 'compile':
                ref = refs[(ci, h['i'])]
            else:
                t = op['t']
                if ':' in t or t == 'unknown':
                    out.append(V('CROSS_CLIENT', 'client-result',
                                 f'client {ci} got a value for {t}'))
                    continue
                ref = byname[(ci, t)]
            if ref.fail_markers:
                out.append(V('WRONG_VALUE', 'client-result',
                             f'client {ci} got a value for a compilation '
                             f'that must fail with {ref.fail_markers}',
                             'value-for-failed'))
                continue
            if not tasktree.values_equal(h['val'][1], ref.root_value):
                out.append(V('WRONG_VALUE', 'client-result',
                             f'client {ci} op {h["i"]}: got '
                             f'{str(h["val"][1])[:300]} expected '
                             f'{str(ref.root_value)[:300]}',
                             _relation(h['val'][1], ref)))
    return out


def _relation(v, ref) -> str:
    try:
        nid = v[0]
    except Exception:
        return 'malformed'
    if nid == ref.prog['id']:
        return 'own-root-wrong-content'
    if nid in ref.nodes:
        return 'other-node-of-own-program'
    return 'foreign'


def check_observations(rr) -> list:
    """Every value a task observed through await / next is the reference
    value of exactly the child it was created for."""
    out = []
    node2ref = {}
    for ci, i, name, prog, ref in refs_of(rr):
        for nid in ref.nodes:
            node2ref[nid] = ref
    batches = collections.defaultdict(list)
    for r in rr.rec:
        ev = r[1]
        if ev == 'obs':
            _, _, nid, opi, f, v = r
            ref = node2ref.get(nid)
            if ref is None:
                continue
            exp = ref.fut_vals.get((nid, f))
            if not tasktree.values_equal(v, exp):
                kind = ref.fut_kind.get((nid, f), '?')
                out.append(V(
                    'WRONG_VALUE' if not _is_perm(v, exp) else 'WRONG_ORDER',
                    f'await-{kind}',
                    f'node {nid} future {f}: observed {str(v)[:300]} '
                    f'expected {str(exp)[:300]}'))
        elif ev == 'batch':
            _, _, nid, opi, f, b = r
            batches[(nid, f)].append(b)
        elif ev == 'spin-wrong':
            out.append(V('WRONG_VALUE', 'await-submit', f'spin {r}'))
        elif ev == 'next-livelock':
            out.append(V('NEXT_MISSING', 'next-loop',
                         f'next() kept returning without completing {r}'))
        elif ev == 'obs-cancelled':
            out.append(V('OBSERVED_CANCELLED', 'await',
                         f'await of a cancelled future returned {r}'))
        elif ev == 'next-accepted':
            out.append(V('OBSERVED_CANCELLED', 'next',
                         f'next() on a dead future returned {r}'))
    for (nid, f), bs in batches.items():
        ref = node2ref.get(nid)
        if ref is None:
            continue
        exp = ref.fut_vals.get((nid, f))
        seen = {}
        for b in bs:
            for item in b:
                try:
                    idx, v = item
                except Exception:
                    out.append(V('NEXT_FOREIGN', 'next',
                                 f'malformed batch item {item!r}'))
                    continue
                if idx in seen:
                    out.append(V('NEXT_DUP', 'next',
                                 f'node {nid} {f}: index {idx} delivered '
                                 f'twice'))
                seen[idx] = v
                if not isinstance(exp, list) or not (0 <= idx < len(exp)) \
                        or not tasktree.values_equal(v, exp[idx]):
                    out.append(V('NEXT_FOREIGN', 'next',
                                 f'node {nid} {f}: ({idx}, {str(v)[:200]}) '
                                 f'is not child {idx}\'s value'))
    # completeness of next_all is checked through the node's return value
    return _dedup(out)


def _is_perm(v, exp) -> bool:
    try:
        return (isinstance(v, list) and isinstance(exp, list)
                and len(v) == len(exp)
                and sorted(map(repr, v)) == sorted(map(repr, exp))
                and v != exp)
    except Exception:
        return False


def _dedup(vs: list) -> list:
    seen = set()
    out = []
    for v in vs:
        if v['sig'] not in seen:
            seen.add(v['sig'])
            out.append(v)
    return out


def body_counts(rr) -> collections.Counter:
    c = collections.Counter()
    for r in rr.rec:
        if r[1] == 'start':
            c[r[2]] += 1
    return c


def check_body_counts(rr, relaxed_programs=()) -> list:
    """must-run nodes ran exactly once; may-run nodes at most once; nodes
    that were never created did not run.  For programs in
    `relaxed_programs` (failed / cancelled / crashed compilations) every
    node may run at most once."""
    out = []
    counts = body_counts(rr)
    for ci, i, name, prog, ref in refs_of(rr):
        relaxed = (ci, i) in relaxed_programs or bool(ref.fail_markers)
        for nid in ref.nodes:
            n = counts.get(nid, 0)
            if n > 1:
                out.append(V(f'BODY_COUNT({min(n, 2)}+)',
                             'cancelled-descendant' if nid in ref.may_run
                             else 'task',
                             f'node {nid} of client {ci} started {n} times'))
            elif nid in ref.must_run and n == 0 and not relaxed:
                out.append(V('BODY_COUNT(0)', 'task',
                             f'node {nid} of client {ci} never started'))
            elif nid not in ref.must_run and nid not in ref.may_run \
                    and n > 0:
                out.append(V('BODY_COUNT(1)', 'never-created',
                             f'node {nid} ran but was never created'))
    return _dedup(out)


def mark_idle_progress(rr) -> None:
    """Called by the engine at idle quiescence."""
    for c in rr.clients:
        c['done_at_idle'] = bool(c['script_done'])


# ------------------------------------------------------------ wire history
def wire(rr) -> list:
    """[(seq, 'SEND'|'DELIVER'|'RECV', src, dst, desc)] for runtime
    messages (label = 'src>dst')."""
    if getattr(rr, '_wire', None) is None:
        out = []
        for e in rr.sim.events:
            if e[1] in ('SEND', 'DELIVER', 'RECV') and len(e) >= 4 \
                    and isinstance(e[3], tuple) and '>' in e[2]:
                src, dst = e[2].split('>', 1)
                out.append((e[0], e[1], src, dst, e[3]))
        rr._wire = out
    return rr._wire


def submit_addrs(desc) -> list:
    """[(addr, parent)] carried by a SUBMIT / SUBMIT_BATCH descriptor."""
    if desc[0] == 'SUBMIT' and len(desc) >= 3 and desc[1] != 'comp':
        return [(desc[1], desc[2])]
    if desc[0] == 'SUBMIT_BATCH':
        return list(zip(desc[1], desc[2]))
    return []


def parent_map(rr) -> dict:
    if getattr(rr, '_parents', None) is None:
        pm = {}
        for seq, ev, src, dst, desc in wire(rr):
            if ev == 'SEND':
                for a, p in submit_addrs(desc):
                    pm.setdefault(a, p)
        rr._parents = pm
    return rr._parents


def cancelled_addrs(rr, until=None) -> set:
    return {desc[1] for seq, ev, src, dst, desc in wire(rr)
            if ev == 'SEND' and desc[0] == 'CANCEL'
            and isinstance(desc[1], tuple)
            and (until is None or seq <= until)}


def ancestors_or_self(rr, addr) -> list:
    pm = parent_map(rr)
    out = [addr]
    seen = {addr}
    while True:
        p = pm.get(out[-1])
        if p is None or p in seen:
            return out
        out.append(p)
        seen.add(p)


def is_cancel_descendant(rr, addr, cancelled=None) -> bool:
    c = cancelled if cancelled is not None else cancelled_addrs(rr)
    return any(a in c for a in ancestors_or_self(rr, addr))


def hung(rr) -> bool:
    return any(not c.get('done_at_idle', False) for c in rr.clients)


# ------------------------------------------------------ client histories
ILL_TIMED_OK = ('Unknown task', 'unexpectedly closed', 'unexpectedly none',
                'Unexpected message type')


def check_client_histories(rr, strict_requests: bool = False) -> list:
    """Per client, replay its recorded API history against a per-task state
    machine:

      submitted -> (done) -> delivered          result() returns the
      submitted -> cancelled                    reference value of *that*
      submitted -> failed                       id, once
      (foreign / unknown ids never change state)

    * a value returned by result()/compile() must be the reference value of
      that very task; never for a task that must fail, whose cancel was
      acknowledged, or that belongs to someone else;
    * status() of an own, undelivered, uncancelled task is RUNNING or DONE
      (monotone); of anything else never RUNNING/DONE (that would expose
      another client's task);
    * an exception is explained if the client's connection was already
      broken by an earlier exception, if it carries the marker of a failing
      compilation this client has in flight, or if the request itself was
      ill-timed (result/status/cancel on a delivered, cancelled, foreign or
      unknown id: the property does not say how those are answered, only
      that the answer stays confined to the requester);
    * anything else is an error nobody raised (CLIENT_ERROR).
    """
    out = []
    refs = refs_of(rr)
    byidx = {(ci, i): ref for ci, i, name, prog, ref in refs}
    byname = {(ci, name): ref for ci, i, name, prog, ref in refs if name}
    for ci, c in enumerate(rr.clients):
        state = {}          # own task name -> submitted|delivered|cancelled
        done_seen = set()
        markers = set()
        must_fail = set()
        broken = False
        saw_marker = False
        for h in c['history']:
            if h['i'] < 0:
                continue
            op = h['op']
            k = op['op']
            t = op.get('t')
            own = t is not None and ':' not in t and t != 'unknown'
            if k == 'submit':
                ref = byname[(ci, op['as'])]
            elif k == 'compile':
                ref = byidx[(ci, h['i'])]
            elif own and (ci, t) in byname:
                ref = byname[(ci, t)]
            else:
                ref = None
            if k in ('submit', 'compile') and ref is not None:
                markers |= ref.fail_markers | ref.may_fail_markers
            ill_timed = False
            if k in ('result', 'status', 'cancel'):
                ill_timed = (not own) or state.get(t) != 'submitted'
            if h['kind'] == 'exc':
                text = ' '.join(m for _, m in h['val'])
                has_marker = any(m in text for m in markers)
                saw_marker = saw_marker or has_marker
                explained = broken or has_marker or c.get('killed')
                if not explained and ill_timed and not strict_requests:
                    explained = any(s in text for s in ILL_TIMED_OK)
                if not explained and k == 'result' and own \
                        and state.get(t) == 'cancelled':
                    explained = True
                if not explained:
                    last = text.strip().splitlines()[-1] if text.strip() \
                        else ''
                    import re as _re
                    out.append(V('CLIENT_ERROR', f'client.{k}',
                                 f'client {ci} op {h["i"]} ({k} {t or ""}) '
                                 f'raised an error nobody raised: '
                                 f'{text[:700]}',
                                 _re.sub(r'\d+', 'N', last)[:80]))
                broken = True
                continue
            # ---- returned normally
            val = h['val']
            if k == 'submit':
                state[op['as']] = 'submitted'
            elif k in ('compile', 'result') and val[0] == 'value':
                if k == 'result' and not own:
                    out.append(V('CROSS_CLIENT', 'client-result',
                                 f'client {ci} received a result for {t}'))
                    continue
                if k == 'result' and state.get(t) == 'cancelled':
                    out.append(V('OBSERVED_CANCELLED', 'client-result',
                                 f'client {ci}: result({t}) returned a '
                                 f'value after its cancel was acknowledged'))
                    continue
                if ref is None:
                    continue
                if ref.fail_markers:
                    out.append(V('WRONG_VALUE', 'client-result',
                                 f'client {ci}: {k} returned a value for a '
                                 f'compilation that must fail with '
                                 f'{sorted(ref.fail_markers)}',
                                 'value-for-failed'))
                elif not tasktree.values_equal(val[1], ref.root_value):
                    out.append(V('WRONG_VALUE', 'client-result',
                                 f'client {ci} op {h["i"]}: got '
                                 f'{str(val[1])[:300]} expected '
                                 f'{str(ref.root_value)[:300]}',
                                 _relation(val[1], ref)))
                if k == 'result':
                    if state.get(t) == 'delivered':
                        out.append(V('DOUBLE_DELIVERY', 'client-result',
                                     f'client {ci}: result({t}) delivered '
                                     f'twice'))
                    state[t] = 'delivered'
            elif k == 'status':
                s = val[1]
                live = own and state.get(t) == 'submitted'
                if live:
                    if s not in ('RUNNING', 'DONE'):
                        out.append(V('STATUS_WRONG', 'client-status',
                                     f'client {ci}: status({t}) = {s} for '
                                     f'its own live task', str(s)))
                    if s == 'DONE':
                        done_seen.add(t)
                    elif t in done_seen:
                        out.append(V('STATUS_WRONG', 'client-status',
                                     f'client {ci}: status({t}) went back '
                                     f'from DONE to {s}', 'non-monotone'))
                elif s in ('RUNNING', 'DONE') and not own:
                    out.append(V('CROSS_CLIENT', 'client-status',
                                 f'client {ci}: status({t}) = {s} exposes '
                                 f'a task it does not own'))
            elif k == 'cancel' and own and state.get(t) == 'submitted':
                state[t] = 'cancelled'
    return _dedup(out)


# ------------------------------------------------------------- reach probes
def reach_probes(rr, info: dict) -> None:
    """Evidence only: how often the conditions the property quantifies
    over were actually reached in this run."""
    def add(k, n=1):
        if n:
            info[k] = info.get(k, 0) + n
    starts = {}
    for r in rr.rec:
        if r[1] == 'start' and r[3][1] is not None:
            wid, addr = r[3]
            addr = tuple(addr)
            starts[addr] = wid
            add('reach.tasks_started')
            if addr[0] >= 0 and addr[0] != wid:
                add('reach.task_ran_on_other_worker_than_its_creator')
        elif r[1] == 'batch':
            add('reach.next_batches')
            if len(r[5]) > 1:
                add('reach.next_batches_with_several_results')
            if len(r[5]) == 0:
                add('reach.next_batches_empty')
        elif r[1] == 'obs':
            add('reach.awaits_returned')
    # results that reached the awaiting worker before / after the task
    # asked for them cannot be told apart from outside; what can be seen
    # on the wire: a WAITING that crossed a SUBMIT/SUBMIT_BATCH in flight
    inflight_to = {}
    for seq, ev, src, dst, desc in wire(rr):
        if desc[0] in ('SUBMIT', 'SUBMIT_BATCH') and dst.startswith('w'):
            if ev == 'SEND':
                inflight_to[dst] = inflight_to.get(dst, 0) + 1
            elif ev == 'RECV':
                inflight_to[dst] = inflight_to.get(dst, 0) - 1
        elif ev == 'SEND' and desc[0] == 'WAITING' and src.startswith('w'):
            if inflight_to.get(src, 0) > 0:
                add('reach.waiting_crossed_submit_in_flight')
        elif ev == 'SEND' and desc[0] == 'SUBMIT_BATCH' \
                and isinstance(desc[1], tuple) and len(desc[1]) > 1:
            add('reach.multi_task_batches')
    depth = 0
    for a in starts:
        depth = max(depth, len(ancestors_or_self(rr, a)))
    info['reach.max_tree_depth_sum'] = info.get('reach.max_tree_depth_sum',
                                                0) + depth
