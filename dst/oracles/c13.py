"""C13: task failures reach their client; no client request takes the
server down; clients are isolated from each other."""
from __future__ import annotations

import re

from dst.oracles import common as C


def check(rr) -> list:
    if rr.status != 'ok':
        return []
    out = []
    info = rr.info = getattr(rr, 'info', {})
    live = C.check_liveness(rr)
    out += [v for v in live if v['cls'] == 'HANG']
    out += server_down(rr, info)
    out += C.thread_failures(rr, ignore=[r'^c/'])
    out += C.check_client_histories(rr)
    out += failures_reported(rr, info)
    out += isolation(rr, info)
    _probes(rr, info)
    if not C.hung(rr):
        out += C.check_observations(rr)
        relaxed = set()
        for ci, c in enumerate(rr.clients):
            if c.get('killed') or any(h['kind'] == 'exc'
                                      for h in c['history']):
                relaxed |= {(cj, i) for cj, i, n, p, r in C.refs_of(rr)
                            if cj == ci}
        # a program some client cancelled (possibly not its owner: the
        # violation is then reported by the owner's history) is relaxed
        for ci, c in enumerate(rr.clients):
            for h in c['history']:
                if h['i'] >= 0 and h['op'].get('op') == 'cancel':
                    t = h['op']['t']
                    who, name = (ci, t)
                    if ':' in t:
                        w, name = t.split(':')
                        who = int(w[1:])
                    relaxed |= {(cj, i) for cj, i, n, p, r in C.refs_of(rr)
                                if cj == who and n == name}
        # abandoned programs (never requested) still run exactly once
        out += C.check_body_counts(rr, relaxed_programs=relaxed)
    return C._dedup(out)


def server_down(rr, info) -> list:
    """The server is still up (and was never forced into its system-error
    shutdown) when all clients have finished their scripts."""
    out = []
    if rr.scn['topo']['kind'] != 'detached':
        return out
    snap = rr.idle_snapshot or {}
    info['server_alive_checks'] = 1
    alive = 'server' in (snap.get('servers') or {})
    if alive and snap['servers']['server'].get('running'):
        return out
    # find what the server told everybody when it went down
    text = ''
    for seq, label, desc in C.error_messages(rr):
        if label.startswith('server>c') and desc[1] is None:
            text = desc[2]
    last_ops = []
    for ci, c in enumerate(rr.clients):
        for h in c['history']:
            if h['i'] >= 0:
                last_ops.append((h['seq'], ci, h['op'].get('op'),
                                 h['op'].get('t')))
    last_ops.sort()
    out.append(C.V('SERVER_DOWN', 'server',
                   f'detached server not running at idle quiescence; last '
                   f'error broadcast: {text!r}; last client ops '
                   f'{last_ops[-4:]}',
                   re.sub(r"\(.*\)|'.*'|\d+", '', text)[:60]))
    return out


def failures_reported(rr, info) -> list:
    """A compilation with a raising task whose result the owner requests
    (while the task is live and the client's connection intact) ends, for
    the owner, in an exception carrying the original message of a failing
    compilation of that client -- never in a value (checked by the history
    oracle) or a hang (liveness)."""
    out = []
    byname = {(ci, name): ref for ci, i, name, prog, ref in C.refs_of(rr)
              if name}
    byidx = {(ci, i): ref for ci, i, name, prog, ref in C.refs_of(rr)}
    for ci, c in enumerate(rr.clients):
        markers = set()
        state = {}
        broken = False
        for h in c['history']:
            if h['i'] < 0:
                continue
            op = h['op']
            k = op['op']
            ref = None
            live = False
            if k == 'submit':
                r0 = byname[(ci, op['as'])]
                markers |= r0.fail_markers | r0.may_fail_markers
                if h['kind'] == 'ok':
                    state[op['as']] = 'submitted'
            elif k == 'compile':
                ref = byidx.get((ci, h['i']))
                markers |= ref.fail_markers | ref.may_fail_markers
                live = True
            elif k == 'result' and (ci, op.get('t')) in byname:
                ref = byname[(ci, op['t'])]
                live = state.get(op['t']) == 'submitted'
            elif k == 'cancel' and h['kind'] == 'ok' \
                    and state.get(op.get('t')) == 'submitted':
                state[op['t']] = 'cancelled'
            if ref is not None and ref.fail_markers and live \
                    and not broken and not c.get('killed'):
                info['failing_results_requested'] = \
                    info.get('failing_results_requested', 0) + 1
                if h['kind'] == 'exc':
                    text = ' '.join(m for _, m in h['val'])
                    if not any(m in text for m in markers):
                        out.append(C.V(
                            'ERROR_LOST', f'client.{k}',
                            f'client {ci} op {h["i"]}: failing compilation '
                            f'ended in an exception without the original '
                            f'message: {text[:400]}'))
            if k == 'result' and h['kind'] == 'ok' and op.get('t') in state:
                state[op['t']] = 'delivered'
            if h['kind'] == 'exc':
                broken = True
    return out


def isolation(rr, info) -> list:
    """No client sees a log record or an error text produced by another
    client's compilation."""
    out = []
    owner = {}
    for ci, i, name, prog, ref in C.refs_of(rr):
        for nid in ref.nodes:
            owner[nid] = ci
    n = 0
    for cname, lname, lvl, msg in rr.client_logs:
        m = re.search(r'LOGMARK-(\d+)', msg)
        if not m:
            continue
        n += 1
        ci = int(cname[1:])
        nid = int(m.group(1))
        if owner.get(nid) != ci:
            out.append(C.V('CROSS_CLIENT', 'log',
                           f'client {ci} received log record {msg!r} of '
                           f'client {owner.get(nid)}'))
    info['log_records_routed'] = n
    for ci, c in enumerate(rr.clients):
        for h in c['history']:
            if h['kind'] != 'exc' or h['i'] < 0:
                continue
            text = ' '.join(m for _, m in h['val'])
            for m in re.finditer(r'MARKER-(\d+)-', text):
                nid = int(m.group(1))
                if owner.get(nid) != ci:
                    out.append(C.V('CROSS_CLIENT', 'error',
                                   f'client {ci} received the error of '
                                   f'client {owner.get(nid)}\'s task: '
                                   f'{m.group(0)}'))
    return out


def _probes(rr, info) -> None:
    """Evidence only: which (request, task state) pairs and which raise
    positions were reached."""
    def add(k):
        info[k] = info.get(k, 0) + 1
    addr_of = {}
    for r in rr.rec:
        if r[1] == 'start' and r[3][1] is not None:
            addr_of[r[2]] = tuple(r[3][1])
        elif r[1] == 'raise' and r[2] in addr_of:
            d = len(C.ancestors_or_self(rr, addr_of[r[2]]))
            add(f'reach.raise_at_depth.{min(d, 5)}')
    for ci, c in enumerate(rr.clients):
        state = {}
        for h in c['history']:
            if h['i'] < 0 or not isinstance(h['op'], dict):
                continue
            op = h['op']
            k = op.get('op')
            if k == 'submit':
                if h['kind'] == 'ok':
                    state[op['as']] = 'live'
                continue
            if k not in ('status', 'result', 'cancel'):
                continue
            t = op.get('t')
            if t == 'unknown':
                cat = 'unknown-id'
            elif isinstance(t, str) and ':' in t:
                cat = 'foreign'
            else:
                cat = state.get(t, 'never-submitted')
            add(f'reach.request.{k}.{cat}.{h["kind"]}')
            if h['kind'] == 'ok':
                if k == 'result' and cat == 'live':
                    state[t] = 'delivered'
                elif k == 'cancel' and cat == 'live':
                    state[t] = 'cancelled'
