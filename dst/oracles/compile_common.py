"""Verifier-side linear algebra for compile() outputs: its own tensor
contraction over each operation's matrix (not Circuit.get_unitary)."""
from __future__ import annotations

import numpy as np

PLACEHOLDERS = ('BarrierPlaceholder', 'MeasurementPlaceholder', 'Reset')


def is_placeholder(op) -> bool:
    return type(op.gate).__name__ in PLACEHOLDERS \
        or op.gate.name.lower().startswith(('barrier', 'measure', 'reset'))


def unitary_of(circuit) -> np.ndarray:
    radixes = list(circuit.radixes)
    n = len(radixes)
    dim = int(np.prod(radixes)) if n else 1
    U = np.eye(dim, dtype=complex).reshape(radixes + radixes)
    for cyc, op in circuit.operations_with_cycles():
        if is_placeholder(op):
            continue
        loc = list(op.location)
        rl = [radixes[q] for q in loc]
        g = np.array(op.get_unitary().numpy).reshape(rl + rl)
        k = len(loc)
        # contract gate input axes with U's output axes at loc
        U = np.tensordot(g, U, axes=(list(range(k, 2 * k)), loc))
        # result axes: gate out (k) + remaining of U in original order
        rest = [a for a in range(2 * n) if a not in loc]
        order = [None] * (2 * n)
        for i, q in enumerate(loc):
            order[q] = i
        for j, a in enumerate(rest):
            order[a] = k + j
        U = np.transpose(U, order)
    return U.reshape(dim, dim)


def infidelity(a: np.ndarray, b: np.ndarray) -> float:
    n = a.shape[0]
    return float(1 - abs(np.trace(a.conj().T @ b)) / n)


def mapped_equivalence(u_in, u_out, n, m, d, pi, pf):
    """Logical qudits enter at pi (others |0>), leave at pf.  Returns
    (non-product residue, infidelity of the induced logical map)."""
    dn = d ** n
    # V[:, x] = U_out |x at pi, 0 elsewhere>
    T = u_out.reshape([d] * m + [d] * m)
    idx = [slice(None)] * m + [0] * m
    for q in pi:
        idx[m + q] = slice(None)
    V = T[tuple(idx)]            # axes: out (m) + in logical (sorted pi)
    # input axes are ordered by physical position; reorder to logical order
    order_in = sorted(range(n), key=lambda i: pi[i])   # position k holds
    # logical order_in[k]
    perm = [order_in.index(i) for i in range(n)]
    V = np.transpose(V, list(range(m)) + [m + p for p in perm])
    rest = [q for q in range(m) if q not in pf]
    V = np.transpose(V, rest + list(pf) + list(range(m, m + n)))
    M = V.reshape(d ** (m - n), dn * dn)
    if M.shape[0] == 1:
        W = M.reshape(dn, dn)
        resid = 0.0
    else:
        u, s, vh = np.linalg.svd(M, full_matrices=False)
        tot = float(np.sum(s ** 2))
        resid = float(1 - (s[0] ** 2) / tot) if tot > 0 else 1.0
        W = (vh[0] * np.sqrt(dn)).reshape(dn, dn)
    return resid, infidelity(u_in, W)
