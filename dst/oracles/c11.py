"""C11: block-wise and control-flow passes apply bodies exactly as
specified.  Reference = sequential interpretation of the same workflow
spec with the same scripted effects, without ForEachBlockPass /
ParallelDo / control passes / batch_replace."""
from __future__ import annotations

import collections
import copy

import numpy as np

from dst.oracles import common as C


# --------------------------------------------------------- summaries
def op_key(op) -> tuple:
    from bqskit.ir.gates import CircuitGate
    if isinstance(op.gate, CircuitGate):
        # structure only: the parameters that count are the operation's
        inner = [(op_key(o)[0], tuple(o.location))
                 for o in op.gate._circuit]
        g = ('BLK', tuple(inner))
    else:
        g = (op.gate.name,)
    return (g, tuple(op.location),
            tuple(round(float(p), 9) for p in op.params))


def per_qudit(circuit) -> dict:
    out = {q: [] for q in range(circuit.num_qudits)}
    for cyc, op in circuit.operations_with_cycles():
        k = op_key(op)
        for q in op.location:
            out[q].append(k)
    return out


def summarize(circuit, data) -> dict:
    from bqskit.passes import ForEachBlockPass
    s = {
        'seqs': per_qudit(circuit),
        'unitary': np.array(circuit.get_unitary().numpy)
        if circuit.num_qudits <= 6 else None,
        'error': float(data.error),
        'imap': list(data.initial_mapping),
        'fmap': list(data.final_mapping),
        'placement': list(data.placement),
        'keys': {k: data[k] for k in data
                 if k.startswith('key') or k == 'touched'},
        'nops': circuit.num_operations,
    }
    bd = []
    if ForEachBlockPass.key in data:
        for run in data[ForEachBlockPass.key]:
            bd.append([{'replaced': b.get('replaced'),
                        'loc': tuple(sorted(
                            b['subnumbering'],
                            key=lambda q: b['subnumbering'][q])),
                        'cycle': b['point'].cycle,
                        'error': float(b.error)} for b in run])
    s['blockdata'] = bd
    return s


# --------------------------------------------------------- reference
class RData:
    """Plain stand-in for PassData (what the scripted effects touch)."""

    def __init__(self, n: int) -> None:
        self.initial_mapping = list(range(n))
        self.final_mapping = list(range(n))
        self.placement = list(range(n))
        self.error = 0.0
        self.d = {}

    def __contains__(self, k): return k in self.d
    def __getitem__(self, k): return self.d[k]
    def __setitem__(self, k, v): self.d[k] = v


class Failed(Exception):
    pass


class RefRun:
    def __init__(self) -> None:
        self.runs = collections.Counter()   # (body id, ctx) -> count
        self.blockdata = []
        self.pdo_alternatives = None
        self.actual_err_bound_terms = []

    def run(self, wf, circuit, data, ctx) -> None:
        for p in wf:
            self.one(p, circuit, data, ctx)

    def one(self, p, circuit, data, ctx) -> None:
        from dst.workload.passes import apply_effect
        t = p['t']
        if t == 'body':
            self.runs[(p['id'], ctx)] += 1
            if p['kind'] == 'fail':
                raise Failed(f'MARKER-FAIL-{p["id"]}')
            if p['kind'] != 'spin':
                apply_effect(p['kind'], p.get('arg', 0), circuit, data)
        elif t == 'if':
            if p['verdict_state'].pop(0) if p['verdict_state'] else False:
                self.run(p['then'], circuit, data, ctx)
            elif p.get('else') is not None:
                self.run(p['else'], circuit, data, ctx)
        elif t == 'while':
            while p['verdicts'].pop(0) if p['verdicts'] else False:
                self.run(p['body'], circuit, data, ctx)
        elif t == 'dowhile':
            self.run(p['body'], circuit, data, ctx)
            while p['verdicts'].pop(0) if p['verdicts'] else False:
                self.run(p['body'], circuit, data, ctx)
        elif t == 'dtd':
            oc = circuit.copy()
            od = copy.deepcopy(data)
            nbd = len(self.blockdata)
            self.run(p['body'], circuit, data, ctx)
            if not p['verdict']:
                circuit.become(oc)
                data.__dict__.update(copy.deepcopy(od.__dict__))
                del self.blockdata[nbd:]
        elif t == 'foreach':
            self.foreach(p, circuit, data)
        elif t == 'pdo':
            self.pdo(p, circuit, data)
        else:
            raise AssertionError(t)

    def foreach(self, p, circuit, data) -> None:
        from bqskit.ir.circuit import Circuit
        from bqskit.ir.gates import CircuitGate
        from bqskit.ir.operation import Operation

        from dst.workload import passes as P
        coll = P.COLLECT[p['filter']]
        repl = P.REPLACE[p['replace']]
        ops = list(circuit.operations_with_cycles())
        new_ops = []
        bd = []
        err_prod = 1.0
        for cyc, op in ops:
            if not coll(op):
                new_ops.append(op)
                continue
            sub = op.gate._circuit.copy()
            sub.set_params(op.params)
            old_u = sub.get_unitary()
            bdata = RData(sub.num_qudits)
            body = copy.deepcopy(p['body'])
            prep(body)
            self.run(body, sub, bdata, tuple(op.location))
            e = float(sub.get_unitary().get_distance_from(old_u)) \
                if p.get('err') else 0.0
            if repl(sub, op):
                new_ops.append(Operation(CircuitGate(sub, True),
                                         op.location, sub.params))
                bd.append({'replaced': True, 'loc': tuple(op.location),
                           'cycle': cyc, 'error': e})
                err_prod *= (1 - e)
            else:
                new_ops.append(op)
                bd.append({'replaced': False, 'loc': tuple(op.location),
                           'cycle': cyc, 'error': e})
        # rebuild by appending in the (topological) iteration order
        rebuilt = Circuit(circuit.num_qudits, circuit.radixes)
        for op in new_ops:
            rebuilt.append(op)
        circuit.become(rebuilt)
        self.blockdata.append(bd)
        data.error = 1 - (1 - data.error) * err_prod

    def pdo(self, p, circuit, data) -> None:
        outs = []
        for br in p['branches']:
            c2 = circuit.copy()
            d2 = copy.deepcopy(data)
            sub = RefRun()
            body = copy.deepcopy(br)
            prep(body)
            sub.run(body, c2, d2, 'top')
            outs.append((c2, d2, sub))
        if p['pick_first']:
            # any single branch may win: enumerate alternatives lazily by
            # recording them; the caller compares against each
            self.pdo_alternatives = outs
            raise PickFirst(outs)
        best = outs[0]
        for o in outs[1:]:
            if o[0].num_operations < best[0].num_operations:
                best = o
        for o in outs:
            self.runs.update(o[2].runs)
            self.blockdata.extend(o[2].blockdata) if o is best else None
        circuit.become(best[0])
        data.__dict__.update(copy.deepcopy(best[1].__dict__))


class PickFirst(Exception):
    def __init__(self, outs) -> None:
        self.outs = outs


def prep(wf) -> None:
    """Give `if` nodes their one-shot verdict state."""
    for p in wf:
        if p['t'] == 'if':
            p['verdict_state'] = [p['verdict']]
            prep(p['then'])
            if p.get('else') is not None:
                prep(p['else'])
        elif p['t'] in ('while', 'dowhile', 'dtd', 'foreach'):
            prep(p['body'])
        elif p['t'] == 'pdo':
            for b in p['branches']:
                prep(b)


def reference(wf_spec, circ_spec):
    """Return a list of acceptable outcomes: each (summary-like dict |
    'fail:<marker>', run counter, exact?)."""
    from dst.workload import passes as P
    results = []

    def explore(wf, circuit, data, ref, idx):
        """Run passes from idx on; fork at pick_first ParallelDo."""
        i = idx
        while i < len(wf):
            try:
                ref.one(wf[i], circuit, data, 'top')
            except PickFirst as pf:
                for (c2, d2, sub) in pf.outs:
                    r2 = copy.deepcopy(ref)
                    r2.pdo_alternatives = None
                    # every branch body ran at most once (losers may have
                    # been cancelled before they started)
                    r2.maybe = getattr(r2, 'maybe', collections.Counter())
                    for o in pf.outs:
                        if o[2] is not sub:
                            r2.maybe.update(o[2].runs)
                    r2.runs.update(sub.runs)
                    r2.blockdata.extend(sub.blockdata)
                    cc = c2.copy()
                    dd = copy.deepcopy(d2)
                    explore(copy.deepcopy(wf), cc, dd, r2, i + 1)
                return
            except Failed as f:
                results.append(('fail', str(f), ref))
                return
            i += 1
        results.append(('ok', (circuit, data), ref))

    wf = copy.deepcopy(wf_spec)
    prep(wf)
    c = P.build_circuit(circ_spec)
    r0 = RefRun()
    # the error bound is checked when every perturbation happens inside a
    # ForEachBlockPass that was asked for a bound
    if c.num_qudits <= 6 and bound_applicable(wf_spec):
        r0.bound_applicable = np.array(c.get_unitary().numpy)
    explore(wf, c, RData(c.num_qudits), r0, 0)
    return results


def bound_applicable(wf, inside_err=False) -> bool:
    ok = True
    for p in wf:
        t = p['t']
        if t == 'body':
            if p['kind'] == 'perturb' and not inside_err:
                ok = False
        elif t == 'foreach':
            ok = ok and bound_applicable(p['body'], bool(p.get('err')))
        elif t == 'if':
            ok = ok and bound_applicable(p['then'], inside_err) and \
                (p.get('else') is None
                 or bound_applicable(p['else'], inside_err))
        elif t in ('while', 'dowhile', 'dtd'):
            ok = ok and bound_applicable(p['body'], inside_err)
        elif t == 'pdo':
            for b in p['branches']:
                ok = ok and bound_applicable(b, inside_err)
    return ok


# ------------------------------------------------------------ oracle
def check(rr) -> list:
    if rr.status != 'ok':
        return []
    out = []
    info = rr.info = getattr(rr, 'info', {})
    live = C.check_liveness(rr)
    out += [v for v in live if v['cls'] == 'HANG']
    out += C.thread_failures(rr, ignore=[r'^c/'])
    if C.hung(rr):
        return C._dedup(out)
    for ci, c in enumerate(rr.clients):
        script = rr.scn['clients'][ci]['script']
        for h in c['history']:
            if h['i'] < 0 or h['op']['op'] != 'compile_wf':
                continue
            op = h['op']
            alts = reference(op['wf'], op['circ'])
            info['alternatives'] = info.get('alternatives', 0) + len(alts)
            out += compare(rr, h, alts, info)
    out += [v for v in live if v['cls'] != 'HANG' and 'c/main' in v['sig']]
    return C._dedup(out)


def run_counts(rr) -> collections.Counter:
    c = collections.Counter()
    for r in rr.rec:
        if r[1] == 'pass-run':
            c[(r[2], r[3])] += 1
    return c


def compare(rr, h, alts, info) -> list:
    top = describe_wf(h['op']['wf'])
    got_runs = run_counts(rr)
    if h['kind'] == 'exc':
        text = ' '.join(m for _, m in h['val'])
        for kind, payload, ref in alts:
            if kind == 'fail' and payload in text:
                info['fail_surfaced'] = info.get('fail_surfaced', 0) + 1
                # sibling blocks / branches run concurrently with the
                # failing one: only "at most once" can be said
                return []
        if any(k == 'fail' for k, p, r in alts):
            return [C.V('WRONG_ERROR', top,
                        f'expected failure '
                        f'{[p for k, p, r in alts if k == "fail"]}, got '
                        f'{text[:400]}')]
        return [C.V('CLIENT_ERROR', top,
                    f'compile raised although no body fails: {text[:600]}')]
    s = h['val'][1]
    problems = None
    for kind, payload, ref in alts:
        if kind != 'ok':
            continue
        p = diff(s, payload, ref, got_runs, top)
        if not p:
            return []
        if problems is None or len(p) < len(problems):
            problems = p
    if problems is None:
        return [C.V('WRONG_VALUE', top,
                    'compile returned a value although a body must fail',
                    'value-for-failed')]
    return problems


def looped(wf, bid, inside=False) -> bool:
    """Is body `bid` inside a loop (may legitimately run repeatedly)?"""
    for p in wf:
        t = p['t']
        if t == 'body':
            if p['id'] == bid and inside:
                return True
        elif t == 'if':
            if looped(p['then'], bid, inside) or (
                    p.get('else') is not None
                    and looped(p['else'], bid, inside)):
                return True
        elif t in ('while', 'dowhile'):
            if looped(p['body'], bid, True):
                return True
        elif t in ('dtd', 'foreach'):
            if looped(p['body'], bid, inside):
                return True
        elif t == 'pdo':
            if any(looped(b, bid, inside) for b in p['branches']):
                return True
    return False


def describe_wf(wf) -> str:
    """Coarse site for signatures: the distributed pass involved."""
    text = repr(wf)
    if "'foreach'" in text and "'pdo'" in text:
        return 'ForEachBlockPass+ParallelDo'
    if "'foreach'" in text:
        return 'ForEachBlockPass'
    if "'pdo'" in text:
        return 'ParallelDo'
    return 'control-passes'


def over_runs(got, ref, top, exact: bool) -> list:
    out = []
    maybe = getattr(ref, 'maybe', collections.Counter())
    for k, n in got.items():
        if n > ref.runs.get(k, 0) + maybe.get(k, 0):
            out.append(C.V('BODY_COUNT', top,
                           f'body {k} ran {n} times, reference allows '
                           f'{ref.runs.get(k, 0)} (+{maybe.get(k, 0)} '
                           f'cancellable)', 'too-many'))
    if exact:
        for k, n in ref.runs.items():
            if got.get(k, 0) < n:
                out.append(C.V('BODY_COUNT', top,
                               f'body {k} ran {got.get(k, 0)} times, '
                               f'reference requires {n}', 'too-few'))
    return out


def diff(s, payload, ref, got_runs, top) -> list:
    circuit, data = payload
    out = []
    exp_seqs = per_qudit(circuit)
    if s['seqs'] != exp_seqs:
        bad = [q for q in exp_seqs if s['seqs'].get(q) != exp_seqs[q]]
        out.append(C.V('BLOCK_ORDER', top,
                       f'per-qudit operation sequence differs on qudits '
                       f'{bad}: got {str(s["seqs"].get(bad[0]))[:300]} '
                       f'expected {str(exp_seqs[bad[0]])[:300]}'))
    if s['unitary'] is not None:
        u = np.array(circuit.get_unitary().numpy)
        d = 1 - abs(np.trace(u.conj().T @ s['unitary'])) / u.shape[0]
        if d > 1e-9:
            out.append(C.V('UNITARY', top,
                           f'output unitary differs from the reference '
                           f'by {d:.3e}'))
    if s['error'] < -1e-12:
        out.append(C.V('ERROR_BOUND', top, f'negative error {s["error"]}'))
    bound = getattr(ref, 'bound_applicable', None)
    if bound is not None and s['unitary'] is not None:
        u0 = bound
        d_act = float(np.sqrt(max(0.0, 1 - (abs(np.trace(
            u0.conj().T @ s['unitary'])) / u0.shape[0]) ** 2)))
        if s['error'] + 10 * s['error'] ** 2 + 1e-6 < d_act:
            out.append(C.V('ERROR_BOUND', top,
                           f'reported error {s["error"]!r} is smaller '
                           f'than the distance actually introduced '
                           f'{d_act!r}'))
    for f, a in (('imap', 'initial_mapping'), ('fmap', 'final_mapping'),
                 ('placement', 'placement')):
        if list(s[f]) != list(getattr(data, a)):
            out.append(C.V('STATE_NOT_RESTORED', top,
                           f'{a} = {s[f]}, reference {getattr(data, a)}',
                           a))
    if s['keys'] != data.d:
        out.append(C.V('STATE_NOT_RESTORED', top,
                       f'data keys {s["keys"]} reference {data.d}', 'keys'))
    got_bd = [[(b['replaced'], tuple(b['loc']))
               for b in run] for run in s['blockdata']]
    exp_bd = [[(b['replaced'], tuple(b['loc']))
               for b in run] for run in ref.blockdata]
    if got_bd != exp_bd:
        out.append(C.V('BLOCK_DATA', top,
                       f'block data {got_bd} reference {exp_bd}'))
    out += over_runs(got_runs, ref, top, exact=True)
    return out
