"""C01: compile() preserves circuit semantics under the reported qudit
mappings (engine simcompile: the real compile() under the simulator)."""
from __future__ import annotations

import numpy as np

from dst.oracles import c07
from dst.oracles import common as C
from dst.oracles import compile_common as CC


def budget(nops: int, eps: float = 1e-8) -> float:
    return max(1e-6, 1e3 * eps * (nops + 1))


def runtime_trouble(rr) -> list:
    """Hangs / runtime errors are C07's business; for C01-C03 such a run is
    inconclusive, not a violation."""
    if C.hung(rr):
        return ['hang']
    return []


def check(rr) -> list:
    if rr.status != 'ok':
        return []
    info = rr.info = getattr(rr, 'info', {})
    if runtime_trouble(rr):
        info['inconclusive_runtime'] = 1
        return []
    out = []
    for ci, c in enumerate(rr.clients):
        for h in c['history']:
            if h['i'] < 0 or h['op']['op'] != 'bq_compile':
                continue
            out += check_one(rr, h, info)
    return C._dedup(out)


def results_of(h):
    """[(input spec, input obj, out circuit, pi, pf)]"""
    return h['val'][1]


def measurements(spec, circ, pi, pf, tag, info) -> list:
    """Measurement placeholders of the input reappear on the physical
    qudits that hold the measured logical qudits at the end."""
    want = {pf[q]: ('c', q) for q in spec.get('measure') or []}
    got = {}
    last_on = {}
    meas_at = {}
    for cyc, o in circ.operations_with_cycles():
        for q in o.location:
            last_on[q] = (cyc, type(o.gate).__name__)
        if type(o.gate).__name__ == 'MeasurementPlaceholder':
            for q, reg in o.gate.measurements.items():
                got[q] = tuple(reg)
                meas_at[q] = cyc
            if sorted(o.location) != sorted(o.gate.measurements):
                return [C.V('MEASURE_MISPLACED', tag,
                            f'measurement op at {o.location} records '
                            f'{o.gate.measurements}', 'location-vs-record')]
    if want:
        info['measured_inputs'] = info.get('measured_inputs', 0) + 1
    if got != want:
        return [C.V('MEASURE_MISPLACED', tag,
                    f'measurements {got}, expected {want} (pf={pf}, '
                    f'measured {spec.get("measure")})',
                    'missing' if not got else 'wrong-qudits')]
    for q, cyc in meas_at.items():
        if last_on[q][0] != cyc:
            return [C.V('MEASURE_MISPLACED', tag,
                        f'qudit {q} is acted on by {last_on[q][1]} after its '
                        f'measurement', 'not-last')]
    return []


def check_one(rr, h, info) -> list:
    out = []
    op = h['op']
    lvl = op['opts']['optimization_level']
    tag = f"level{lvl}"
    if h['kind'] == 'exc':
        text = ' '.join(m for _, m in h['val'])
        last = text.strip().splitlines()[-1] if text.strip() else ''
        return [C.V('COMPILE_RAISED', tag,
                    f'compile() raised for {op["input"]["kind"]} input: '
                    f'{text[-900:]}', c07._norm(last))]
    for spec, obj, circ, pi, pf, model in results_of(h):
        if spec['kind'] != 'circuit':
            continue
        info['circuits_checked'] = info.get('circuits_checked', 0) + 1
        n, m = obj.num_qudits, model.num_qudits
        d = obj.radixes[0] if n else 2
        if len(set(pi)) != n or len(set(pf)) != n or \
                any(not 0 <= q < m for q in list(pi) + list(pf)):
            out.append(C.V('MAPPING_INVALID', tag,
                           f'mappings pi={pi} pf={pf} not injective into '
                           f'range({m})'))
            continue
        if circ.num_qudits != m:
            # C02 reports the width; the map cannot be evaluated
            continue
        out += measurements(spec, circ, pi, pf, tag, info)
        u_in = CC.unitary_of(obj)
        u_out = CC.unitary_of(circ)
        resid, inf = CC.mapped_equivalence(u_in, u_out, n, m, d,
                                           list(pi), list(pf))
        b = budget(obj.num_operations)
        info['max_infidelity'] = max(info.get('max_infidelity', 0.0), inf)
        info['max_residue'] = max(info.get('max_residue', 0.0), resid)
        if resid > b:
            out.append(C.V('NONPRODUCT', tag,
                           f'output entangles the logical qudits with the '
                           f'ancillas / leaves them elsewhere than pf: '
                           f'residue {resid:.3e} > {b:.1e}; pi={pi} pf={pf} '
                           f'input={spec}'))
        elif inf > b:
            out.append(C.V('SEMANTICS', tag,
                           f'logical map differs from the input: infidelity '
                           f'{inf:.3e} > {b:.1e}; pi={pi} pf={pf} '
                           f'input={spec} model={op["model"]}'))
    return out
