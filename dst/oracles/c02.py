"""C02: compile() output is executable on the target machine model."""
from __future__ import annotations

from dst.oracles import c01
from dst.oracles import c07
from dst.oracles import common as C
from dst.oracles import compile_common as CC


def check(rr) -> list:
    if rr.status != 'ok':
        return []
    info = rr.info = getattr(rr, 'info', {})
    if c01.runtime_trouble(rr):
        info['inconclusive_runtime'] = 1
        return []
    out = []
    for ci, c in enumerate(rr.clients):
        for h in c['history']:
            if h['i'] < 0 or h['op']['op'] != 'bq_compile':
                continue
            op = h['op']
            kind = op['input']['kind']
            tag = f"{kind} level{op['opts']['optimization_level']}"
            if h['kind'] == 'exc':
                text = ' '.join(m for _, m in h['val'])
                last = text.strip().splitlines()[-1] if text.strip() else ''
                out.append(C.V('COMPILE_RAISED', input_class(op['input']),
                               f'compile() raised: {text[-900:]}',
                               c07._norm(last)))
                continue
            for spec, obj, circ, pi, pf, model in c01.results_of(h):
                info['outputs_checked'] = info.get('outputs_checked', 0) + 1
                out += executable(spec, circ, model, op)
    return C._dedup(out)


def input_class(spec) -> str:
    if spec['kind'] == 'list':
        return 'list'
    return f"{spec['kind']}/n{spec['n']}/d{spec.get('d', 2)}"


def executable(spec, circ, model, op) -> list:
    out = []
    cls = input_class(spec)
    lvl = op['opts']['optimization_level']
    mine = True
    if circ.num_qudits != model.num_qudits or \
            list(circ.radixes) != list(model.radixes):
        out.append(C.V('NOT_EXECUTABLE(width)', cls,
                       f'output has {circ.num_qudits} qudits / radixes '
                       f'{circ.radixes}, model {model.num_qudits} / '
                       f'{model.radixes}'))
        mine = False
    edges = set()
    for a, b in model.coupling_graph:
        edges.add((a, b))
        edges.add((b, a))
    bad_gates = set()
    bad_edges = set()
    for cyc, o in circ.operations_with_cycles():
        if CC.is_placeholder(o):
            continue
        if o.gate not in model.gate_set:
            bad_gates.add(o.gate.name)
        loc = list(o.location)
        for i in range(len(loc)):
            for j in range(i + 1, len(loc)):
                if (loc[i], loc[j]) not in edges:
                    bad_edges.add((loc[i], loc[j]))
    if bad_gates:
        mine = False
        out.append(C.V('NOT_EXECUTABLE(gate)', cls,
                       f'level {lvl}: non-native gates {sorted(bad_gates)} '
                       f'(gate set {sorted(g.name for g in model.gate_set)})'
                       f' input={spec}', ','.join(sorted(bad_gates))))
    if bad_edges:
        mine = False
        out.append(C.V('NOT_EXECUTABLE(edge)', cls,
                       f'level {lvl}: gates on uncoupled qudits '
                       f'{sorted(bad_edges)} graph '
                       f'{sorted(model.coupling_graph)}'))
    try:
        theirs = bool(model.is_compatible(circ))
    except Exception as e:
        theirs = None
        out.append(C.V('COMPAT_DISAGREES', cls,
                       f'is_compatible raised {e!r}'))
    if theirs is not None and theirs != mine:
        ph = sorted({o.gate.name for cyc, o in circ.operations_with_cycles()
                     if CC.is_placeholder(o)})
        pat = ''
        if mine and not theirs and ph:
            pat = 'placeholder-counted-as-gate'
        out.append(C.V('COMPAT_DISAGREES', cls.split('/')[0],
                       f'MachineModel.is_compatible says {theirs}, '
                       f'independent check says {mine}; placeholders in '
                       f'output: {ph}', pat))
    return out
