"""C12: cancelling work removes it everywhere and disturbs nothing else."""
from __future__ import annotations

from dst.oracles import c07
from dst.oracles import common as C

AWAIT_CANCELLED_MSG = 'Cannot await on a canceled task'


def program_fates(rr) -> dict:
    """(ci, submit-op index) -> 'normal' | 'cancelled' | 'abandoned' |
    'fails' from the client scripts and the reference model."""
    fates = {}
    for ci, i, name, prog, ref in C.refs_of(rr):
        script = rr.scn['clients'][ci]['script']
        fate = 'normal'
        if ref.fail_markers:
            fate = 'fails'
        if ref.may_fail_markers and fate == 'normal':
            fate = 'may-fail'
        if name is not None:
            ops = [op for op in script[i + 1:] if op.get('t') == name]
            kinds = [op['op'] for op in ops]
            if 'cancel' in kinds:
                fate = 'cancelled'
            elif 'result' not in kinds:
                fate = 'abandoned'
        # a client whose connection dies (own error, bad request) cancels
        # everything it still has in flight
        fates[(ci, i)] = fate
    return fates


def check(rr) -> list:
    if rr.status != 'ok':
        return []
    out = []
    info = rr.info = getattr(rr, 'info', {})
    fates = program_fates(rr)
    expected = set()
    for ci, i, name, prog, ref in C.refs_of(rr):
        expected |= ref.fail_markers | ref.may_fail_markers
    live = C.check_liveness(rr)
    out += [v for v in live if v['cls'] == 'HANG']
    out += C.check_no_spurious_errors(rr, expected_markers=expected
                                      | {AWAIT_CANCELLED_MSG,
                                         'Unknown task'})
    out += C.thread_failures(rr, ignore=[r'^c/'])
    if C.hung(rr):
        return C._dedup(out)
    out += C.check_client_histories(rr)
    out += C.check_observations(rr)
    relaxed = {k for k, f in fates.items() if f != 'normal'}
    relaxed |= collateral(rr, fates)
    out += C.check_body_counts(rr, relaxed_programs=relaxed)
    out += started_after_cancel(rr, info)
    out += leaks(rr, info, fates)
    out += cancel_propagation(rr, info)
    out += [v for v in live if v['cls'] != 'HANG' and 'c/main' in v['sig']]
    return C._dedup(out)


def collateral(rr, fates) -> set:
    """Programs of a client whose connection ended early (its own failing
    compilation, or a request the server answers by disconnecting) are
    cancelled by the server: relaxed to at-most-once."""
    out = set()
    for ci, c in enumerate(rr.clients):
        if c.get('killed') or any(h['kind'] == 'exc'
                                  for h in c['history']):
            for (cj, i) in fates:
                if cj == ci:
                    out.add((cj, i))
    if rr.scn['topo']['kind'] == 'attached':
        # one client: an error tears the whole runtime down
        if any(h['kind'] == 'exc' for c in rr.clients
               for h in c['history']):
            out |= set(fates)
    return out


def client_outcomes(rr, fates) -> list:
    out = []
    byname = {(ci, name): (i, ref) for ci, i, name, prog, ref
              in C.refs_of(rr) if name}
    byidx = {(ci, i): ref for ci, i, name, prog, ref in C.refs_of(rr)}
    from dst.workload import tasktree
    for ci, c in enumerate(rr.clients):
        cancelled_at = {}
        broken = False     # an earlier exception closed this client's conn
        for h in c['history']:
            op = h['op'] if isinstance(h['op'], dict) else {'op': h['op']}
            k = op['op']
            if k == 'cancel' and h['kind'] == 'ok':
                cancelled_at[op['t']] = h['ret']
            if k in ('result', 'compile'):
                if k == 'compile':
                    ref = byidx[(ci, h['i'])]
                    fate = fates[(ci, h['i'])]
                    tname = None
                else:
                    tname = op['t']
                    if (ci, tname) not in byname:
                        continue
                    i0, ref = byname[(ci, tname)]
                    fate = fates[(ci, i0)]
                if h['kind'] == 'ok' and h['val'][0] == 'value':
                    if tname in cancelled_at:
                        out.append(C.V('OBSERVED_CANCELLED', 'client-result',
                                       f'client {ci}: result({tname}) '
                                       f'returned a value after its cancel '
                                       f'was acknowledged'))
                    elif ref.fail_markers:
                        out.append(C.V('WRONG_VALUE', 'client-result',
                                       f'client {ci}: value for a '
                                       f'compilation that must fail',
                                       'value-for-failed'))
                    elif not tasktree.values_equal(h['val'][1],
                                                   ref.root_value):
                        out.append(C.V('WRONG_VALUE', 'client-result',
                                       f'client {ci} op {h["i"]}: '
                                       f'{str(h["val"][1])[:200]} != '
                                       f'{str(ref.root_value)[:200]}'))
                elif h['kind'] == 'exc':
                    text = ' '.join(m for _, m in h['val'])
                    if ref.fail_markers:
                        if not any(m in text for m in ref.fail_markers):
                            out.append(C.V(
                                'WRONG_ERROR', f'client.{k}',
                                f'client {ci}: expected failure with '
                                f'{ref.fail_markers}, got {text[:300]}'))
                    elif tname in cancelled_at or broken:
                        pass  # awaiting cancelled work fails: required
                    elif any(m in text for m in ref.may_fail_markers):
                        pass  # a body inside a cancelled subtree raised
                        # before the cancel reached it: either is legal
                    else:
                        out.append(C.V(
                            'CLIENT_ERROR', f'client.{k}',
                            f'client {ci} op {h["i"]} raised although its '
                            f'compilation was neither cancelled nor '
                            f'failing: {text[:600]}', c07._norm(
                                text.strip().splitlines()[-1]
                                if text.strip() else '')))
            if h['kind'] == 'exc':
                broken = True
    return out


def started_after_cancel(rr, info) -> list:
    """If the SUBMIT carrying task X is received by worker W after W
    received (hence fully handled) a CANCEL of X or of an ancestor of X,
    X's body never starts."""
    out = []
    workers = {n.name for n in rr.sim.nodes.values() if n.kind == 'worker'}
    cancelled_on = {w: set() for w in workers}
    late = {}
    for seq, ev, src, dst, desc in C.wire(rr):
        if ev != 'RECV' or dst not in workers:
            continue
        if desc[0] == 'CANCEL' and isinstance(desc[1], tuple):
            cancelled_on[dst].add(desc[1])
        else:
            for a, p in C.submit_addrs(desc):
                if any(x in cancelled_on[dst]
                       for x in C.ancestors_or_self(rr, a)):
                    late[a] = dst
    info['submit_after_cancel'] = len(late)
    started = {}
    for r in rr.rec:
        if r[1] == 'start':
            wid, addr = r[3]
            started[addr] = (r[2], wid)
    for a, w in late.items():
        if a in started:
            out.append(C.V('STARTED_AFTER_CANCEL', 'worker',
                           f'task {a} (node {started[a][0]}) started on {w} '
                           f'although its cancel had been handled there '
                           f'before it arrived'))
    return out


def cancel_propagation(rr, info) -> list:
    """A worker that never learns of a cancellation cannot stop starting
    the cancelled work.  Stated by harm, not by mechanism: a violation is a
    task x whose body starts on worker W after a cancellation covering x
    (x itself or one of its ancestors) was issued, where W is still alive
    at idle quiescence and has by then received no CANCEL for x or any of
    its ancestors -- descendants have not "stopped being started" on W and
    never would.  (Starting work that was already queued on a worker which
    *is* told a little later is the legal non-pre-emptive behaviour; so is
    a worker that ended before the news could reach it.)

    Cancellations are taken from three sources: CANCEL messages workers and
    the server put on the wire; client cancel() calls that were
    acknowledged; and, from the task bodies' own records, every slot of a
    future a task cancelled explicitly or abandoned when it finished --
    whether or not the runtime sent anything for that slot."""
    out = []
    snap = rr.idle_snapshot
    if snap is None:
        return out
    idle_seq = getattr(rr, 'idle_seq', None) or 10 ** 12
    issued = {}           # cancelled address -> seq the cancel was issued
    got = {}              # address -> {worker name: seq received}
    for seq, ev, src, dst, desc in C.wire(rr):
        if seq > idle_seq or desc[0] != 'CANCEL' \
                or not isinstance(desc[1], tuple):
            continue
        if ev == 'SEND' and (src.startswith('w') or src == 'server'):
            issued.setdefault(desc[1], seq)
        elif ev == 'RECV' and dst.startswith('w'):
            got.setdefault(desc[1], {}).setdefault(dst, seq)
    # client cancels of live compilations, acknowledged to the client
    srv = (snap.get('servers') or {}).get('server') or {}
    tasks = srv.get('tasks') or {}
    for ci, c in enumerate(rr.clients):
        state = {}
        ids = {}
        for h in c['history']:
            if h['i'] < 0 or h['kind'] != 'ok':
                continue
            op = h['op']
            if op['op'] == 'submit':
                state[op['as']] = 'submitted'
                ids[op['as']] = h['val'][1]
            elif op['op'] == 'result' and op.get('t') in state:
                state[op['t']] = 'delivered'
            elif op['op'] == 'cancel' and state.get(op.get('t')) \
                    == 'submitted':
                state[op['t']] = 'cancelled'
                mb = tasks.get(ids[op['t']])
                if mb is not None and h.get('ret', 0) <= idle_seq:
                    a = (-1, mb, 0)
                    issued[a] = min(issued.get(a, 10 ** 12), h['ret'])
    # every slot of a future that a task cancelled (explicit cancel) or
    # abandoned (unfinished when the task returned)
    n_slots = 0
    addr_of = {}
    finish_at = {}
    for r in rr.rec:
        if r[1] == 'start' and r[3][1] is not None:
            addr_of.setdefault(r[2], tuple(r[3][1]))
        elif r[1] == 'finish':
            finish_at.setdefault(r[2], r[0])
    fut_children = {}
    fut_fate = {}
    for ci, i, name, prog, ref in C.refs_of(rr):
        fut_children.update(ref.fut_children)
        fut_fate.update(ref.fut_fate)
    cancel_at = {}
    for r in rr.rec:
        if r[1] == 'cancel-done' and r[0] <= idle_seq:
            cancel_at.setdefault((r[2], r[4]), r[0])
    # abandoned futures are cancelled when the runtime processes the
    # task's completion (not when the body returns): right after it sent
    # the task's RESULT
    result_sent = {}
    for seq, ev, src, dst, desc in C.wire(rr):
        if ev == 'SEND' and desc[0] == 'RESULT' and src.startswith('w') \
                and isinstance(desc[1], tuple) and seq <= idle_seq:
            result_sent.setdefault(desc[1], seq)
    for (nid, f), fate in fut_fate.items():
        a = addr_of.get(nid)
        if fate is None and a in result_sent:
            cancel_at.setdefault((nid, f), result_sent[a])
    for key, t in cancel_at.items():
        for cid in fut_children.get(key, []):
            a = addr_of.get(cid)
            if a is not None:
                n_slots += 1
                issued[a] = min(issued.get(a, 10 ** 12), t)
    info['cancels_tracked'] = len(issued)
    info['cancelled_slots_tracked'] = n_slots
    if not issued:
        return out
    _cancel_point_probes(rr, info, issued, got)
    # a worker that has already ended (attached runtime closed after its
    # only compilation returned, crash) starts nothing further: only
    # workers still alive at idle can be "never told"
    alive = set(getattr(rr, 'alive_at_idle', None) or [])
    told = {}             # worker -> set of addresses it received
    for a, ws in got.items():
        for w in ws:
            told.setdefault(w, set()).add(a)
    for r in rr.rec:
        if r[1] != 'start' or r[0] > idle_seq:
            continue
        wid, addr = r[3]
        if addr is None:
            continue
        wname = f'w{wid}'
        if wname not in alive:
            continue
        anc = C.ancestors_or_self(rr, tuple(addr))
        covering = [a for a in anc
                    if a in issued and issued[a] <= r[0]]
        if not covering:
            continue
        if any(a in told.get(wname, ()) for a in anc):
            continue
        a = covering[0]
        out.append(C.V(
            'CANCEL_NOT_PROPAGATED',
            'client-cancel' if a[0] == -1 else 'task-cancel',
            f'task {tuple(addr)} (node {r[2]}), a descendant of '
            f'cancelled {a}, started on {wname} after the cancel '
            f'was issued, and {wname} is never told about the '
            f'cancel before the system falls idle'))
        return out
    return out


def _cancel_point_probes(rr, info, issued, got) -> None:
    """Reach probes (evidence only, no verdict): in which state of the
    cancelled work did each cancellation land?  The property quantifies
    over cancel points "before start, while delayed, while awaiting, after
    partial map results, after completion"."""
    started, finished = {}, {}
    node_of = {}
    for r in rr.rec:
        if r[1] == 'start' and r[3][1] is not None:
            a = tuple(r[3][1])
            started.setdefault(a, r[0])
            node_of[r[2]] = a
        elif r[1] == 'finish' and r[2] in node_of:
            finished.setdefault(node_of[r[2]], r[0])
    recv_on_worker = {}
    for seq, ev, src, dst, desc in C.wire(rr):
        if ev == 'RECV' and dst.startswith('w'):
            for a, p in C.submit_addrs(desc):
                recv_on_worker.setdefault(a, seq)
    known = set(C.parent_map(rr)) | set(started)
    for a, t in issued.items():
        kind = 'client' if a[0] == -1 else 'task'
        sub = [x for x in known if a in C.ancestors_or_self(rr, x)]
        n_started = sum(1 for x in sub if started.get(x, 10 ** 12) < t)
        n_finished = sum(1 for x in sub if finished.get(x, 10 ** 12) < t)
        n_queued = sum(1 for x in sub
                       if recv_on_worker.get(x, 10 ** 12) < t
                       and started.get(x, 10 ** 12) >= t)
        if finished.get(a, 10 ** 12) < t:
            cls = 'after_completion'
        elif n_started == 0:
            cls = 'before_start'
        elif n_finished:
            cls = 'after_partial_results'
        else:
            cls = 'while_running_or_awaiting'
        k = f'cancel_point.{kind}.{cls}'
        info[k] = info.get(k, 0) + 1
        if n_queued:
            k = f'cancel_point.{kind}.with_delayed_or_queued_descendants'
            info[k] = info.get(k, 0) + 1
        late = sum(1 for x in sub if started.get(x, 0) > t)
        if late:
            info['cancel_point.descendants_started_after_issue'] = \
                info.get('cancel_point.descendants_started_after_issue',
                         0) + late


def leaks(rr, info, fates) -> list:
    """At idle quiescence no worker holds tasks, delayed tasks or
    mailboxes; the server holds no mailbox of a cancelled compilation."""
    out = []
    snap = rr.idle_snapshot
    if snap is None:
        return out
    if snap['missing']:
        info['probe_unavailable'] = 1
    cancelled = C.cancelled_addrs(rr, until=getattr(rr, 'idle_seq', None))
    n_entries = 0

    def belongs_to_cancelled(addr) -> bool:
        return C.is_cancel_descendant(rr, tuple(addr), cancelled)

    for wname, w in snap['workers'].items():
        if w['tasks'] is None or w['mailboxes'] is None \
                or w['delayed'] is None:
            continue
        info['idle_worker_tables_checked'] = \
            info.get('idle_worker_tables_checked', 0) + 1
        owned = {}
        for addr, bcs, comp, boxes in w['tasks']:
            n_entries += 1
            for b in boxes:
                owned[b] = addr
            rel = _relation(addr, bcs, cancelled)
            if rel != 'not-cancelled':
                out.append(C.V('LEAK', 'worker.tasks',
                               f'{wname} still holds started task {addr} '
                               f'(breadcrumbs {bcs}) at idle quiescence',
                               rel))
        for addr, bcs, comp in w['delayed']:
            n_entries += 1
            rel = _relation(addr, bcs, cancelled)
            if rel != 'not-cancelled':
                out.append(C.V('LEAK', 'worker.delayed',
                               f'{wname} still holds delayed task {addr}',
                               rel))
        for b in w['mailboxes']:
            n_entries += 1
            # the tasks a mailbox waits for are (worker id, mailbox, slot);
            # their creator is the mailbox's owner
            child = (w['id'], b, 0)
            owner = C.parent_map(rr).get(child)
            dead = belongs_to_cancelled(child) or (
                owner is not None and belongs_to_cancelled(owner))
            if b in owned and not belongs_to_cancelled(owned[b]):
                dead = dead and False
            if dead:
                rel = 'owner-still-held' if b in owned else 'orphan'
                out.append(C.V('LEAK', 'worker.mailboxes',
                               f'{wname} still holds mailbox {b} (owner '
                               f'{owner}) of cancelled work at idle '
                               f'quiescence', rel))
        for a in w['ready'] or []:
            if belongs_to_cancelled(a):
                out.append(C.V('LEAK', 'worker.ready-queue',
                               f'{wname} ready queue holds {a}'))
    # server mailboxes of cancelled compilations
    ids = {}
    for ci, c in enumerate(rr.clients):
        for h in c['history']:
            if h['kind'] == 'ok' and h['val'][0] == 'submitted':
                ids[h['val'][1]] = (ci, h['op']['as'])
    acked = set()
    for ci, c in enumerate(rr.clients):
        for h in c['history']:
            if h['kind'] == 'ok' and h['val'][0] == 'cancelled':
                acked.add((ci, h['op']['t']))
    for sname, s in snap['servers'].items():
        if s.get('mailboxes') is None or s.get('mailbox_to_task') is None:
            continue
        for mb in s['mailboxes']:
            tid = s['mailbox_to_task'].get(mb)
            who = ids.get(tid)
            if who in acked:
                out.append(C.V('LEAK', 'server.mailboxes',
                               f'server still holds mailbox {mb} of '
                               f'cancelled compilation {who}'))
    info['idle_leak_entries'] = n_entries
    return out


def _relation(addr, bcs, cancelled) -> str:
    if addr in cancelled:
        return 'cancelled-self'
    if any(b in cancelled for b in bcs):
        return 'cancelled-descendant'
    return 'not-cancelled'
