"""C03: compile() of a unitary, state or state system reaches its target;
a sequence of inputs returns one result per input in order."""
from __future__ import annotations

import numpy as np

from dst.oracles import c01
from dst.oracles import c02
from dst.oracles import c07
from dst.oracles import common as C
from dst.oracles import compile_common as CC


def check(rr) -> list:
    if rr.status != 'ok':
        return []
    info = rr.info = getattr(rr, 'info', {})
    if c01.runtime_trouble(rr):
        info['inconclusive_runtime'] = 1
        return []
    out = []
    for ci, c in enumerate(rr.clients):
        for h in c['history']:
            if h['i'] < 0 or h['op']['op'] != 'bq_compile':
                continue
            op = h['op']
            if h['kind'] == 'exc':
                text = ' '.join(m for _, m in h['val'])
                last = text.strip().splitlines()[-1] if text.strip() else ''
                out.append(C.V('COMPILE_RAISED', c02.input_class(op['input'])
                               + f"/level{op['opts']['optimization_level']}",
                               f'compile() raised: {text[-900:]}',
                               c07._norm(last)))
                continue
            res = c01.results_of(h)
            if op['input']['kind'] == 'list':
                if len(res) != len(op['input']['items']):
                    out.append(C.V('LIST_ORDER', 'list',
                                   f'{len(res)} results for '
                                   f'{len(op["input"]["items"])} inputs'))
            for k, (spec, obj, circ, pi, pf, model) in enumerate(res):
                info['targets_checked'] = info.get('targets_checked', 0) + 1
                d = distance(spec, obj, circ, pi, pf)
                if d is None:
                    continue
                info['max_distance'] = max(info.get('max_distance', 0.0), d)
                if d > c01.budget(4):
                    cls = 'TARGET_MISSED'
                    pat = ''
                    if op['input']['kind'] == 'list':
                        # does it match another input of the list?
                        for j, (s2, o2, c2, *_r) in enumerate(res):
                            if j != k:
                                d2 = distance(s2, o2, circ, pi, pf)
                                if d2 is not None and d2 <= c01.budget(4):
                                    cls, pat = 'LIST_ORDER', 'swapped'
                    out.append(C.V(cls, c02.input_class(spec)
                                   + f"/level"
                                   f"{op['opts']['optimization_level']}",
                                   f'distance {d:.3e} input={spec} '
                                   f'model={op["model"]}', pat))
    return C._dedup(out)


def distance(spec, obj, circ, pi, pf):
    """Infidelity-type distance between what the output circuit does and
    the target (None for circuit inputs: that is C01)."""
    k = spec['kind']
    if k == 'circuit':
        return None
    n = obj.num_qudits
    d = obj.radixes[0]
    m = circ.num_qudits
    u_out = CC.unitary_of(circ)
    if len(pi) != n or len(pf) != n:
        # non-circuit inputs are compiled from a 1-qudit dummy circuit: the
        # reported mappings are only meaningful if a mapping pass ran
        if m != n:
            return None
        pi = pf = tuple(range(n))
    if m != n or list(pi) != list(range(n)) or list(pf) != list(range(n)):
        # mapped output: reduce to the logical map first
        if k == 'unitary':
            resid, inf = CC.mapped_equivalence(
                np.array(obj.numpy), u_out, n, m, d, list(pi), list(pf))
            return max(resid, inf)
        return None
    if k == 'unitary':
        return CC.infidelity(np.array(obj.numpy), u_out)
    if k == 'state':
        v = u_out[:, 0]
        return float(1 - abs(np.vdot(np.array(obj.numpy), v)))
    if k == 'system':
        ov = 0
        cnt = 0
        for s_in, s_out in obj.items():
            ov += np.vdot(np.array(s_out.numpy), u_out @ np.array(s_in.numpy))
            cnt += 1
        return float(1 - abs(ov) / cnt)
    return None
