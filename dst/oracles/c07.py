"""C07: every awaited runtime future resolves exactly once with its own
result; no task waits forever; no error the bodies did not raise."""
from __future__ import annotations

from dst.oracles import common as C


def check(rr) -> list:
    if rr.status != 'ok':
        return []
    out = []
    info = rr.info = getattr(rr, 'info', {})
    C.reach_probes(rr, info)
    out += C.check_liveness(rr)
    if out and out[0]['cls'] == 'HANG':
        # a hang makes every later check noise; but report runtime errors
        # that explain it
        out += C.check_no_spurious_errors(rr)
        out += C.thread_failures(rr)
        return C._dedup(out)
    out += C.check_no_spurious_errors(rr)
    out += C.thread_failures(rr)
    out += client_errors(rr)
    out += C.check_client_values(rr)
    out += C.check_observations(rr)
    out += C.check_body_counts(rr)
    out += stuck_tasks(rr)
    return C._dedup(out)


def stuck_tasks(rr) -> list:
    """No task waits forever: C07 programs cancel nothing, so once every
    client call has returned and the system is idle, no worker may still
    hold a started or delayed task or an open mailbox."""
    out = []
    snap = rr.idle_snapshot
    if snap is None or C.hung(rr):
        return out
    for wname, w in snap['workers'].items():
        if w['tasks']:
            out.append(C.V('TASK_STUCK', 'worker.tasks',
                           f'{wname} still holds started task(s) '
                           f'{[t[0] for t in w["tasks"]]} at idle '
                           f'quiescence although every client call '
                           f'returned'))
        if w['delayed']:
            out.append(C.V('TASK_STUCK', 'worker.delayed',
                           f'{wname} still holds delayed task(s) '
                           f'{[t[0] for t in w["delayed"]]}'))
        if w['mailboxes']:
            out.append(C.V('TASK_STUCK', 'worker.mailboxes',
                           f'{wname} still holds mailbox(es) '
                           f'{w["mailboxes"]}'))
    return out


def client_errors(rr) -> list:
    """The client call raised although no body raised."""
    out = []
    for ci, c in enumerate(rr.clients):
        for h in c['history']:
            if h['kind'] == 'exc':
                chain = h['val']
                inner = chain[-1] if chain else ('?', '')
                last = inner[1].strip().splitlines()[-1][:120] \
                    if inner[1].strip() else ''
                op = h['op']['op'] if isinstance(h['op'], dict) else h['op']
                out.append(C.V(
                    'CLIENT_ERROR', f'client.{op}',
                    f'client {ci} op {h["i"]} raised {chain}',
                    _norm(last)))
    return out


def _norm(s: str) -> str:
    import re
    s = re.sub(r'\d+', 'N', s)
    return s[:80]
