"""C14: a crashed worker or manager (or one that lost its connection)
unblocks every waiting client with an error, in bounded time, and the rest
of the runtime shuts down."""
from __future__ import annotations

from dst.oracles import c07
from dst.oracles import common as C
from dst.workload import tasktree

BOUND_S = 60.0


def check(rr) -> list:
    if rr.status != 'ok':
        return []
    info = rr.info = getattr(rr, 'info', {})
    idle_seq = getattr(rr, 'idle_seq', None) or 10 ** 12
    fired = [c for c in rr.crashes if c.get('fired')
             and c['seq'] <= idle_seq]
    if not fired:
        info['control_runs'] = 1
        return c07.check(rr)
    info['crash_runs'] = 1
    out = []
    first = min(fired, key=lambda c: c['seq'])
    tag = f"{first['kind']}/{first['spec']['trigger'].get('cls', 'step')}"
    if first.get('sever'):
        tag += '/sever'
    # 1+2. no client stays blocked
    live = C.check_liveness(rr)
    for v in live:
        if v['cls'] == 'HANG':
            site = v['sig'].split(' @ ')[1].split(' [')[0]
            kind = 'sever' if first.get('sever') else 'crash'
            out.append({'cls': 'CRASH_HANG',
                        'sig': f'CRASH_HANG @ {site} '
                               f'[{first["kind"]} {kind}]',
                        'msg': f'after fault {tag} {first}: ' + v['msg']})
    # nothing is returned as a result unless it is the complete output
    refs = {(ci, i): ref for ci, i, name, prog, ref in C.refs_of(rr)}
    byname = {(ci, name): ref for ci, i, name, prog, ref in C.refs_of(rr)
              if name}
    for ci, c in enumerate(rr.clients):
        for h in c['history']:
            if h['i'] < 0:
                continue
            if h['kind'] == 'ok' and h['val'][0] == 'value':
                op = h['op']
                ref = refs.get((ci, h['i'])) if op['op'] == 'compile' \
                    else byname.get((ci, op.get('t')))
                if ref is None or not tasktree.values_equal(
                        h['val'][1], ref.root_value):
                    out.append(C.V('CRASH_PARTIAL_RESULT', 'client-result',
                                   f'client {ci} op {h["i"]} returned '
                                   f'{str(h["val"][1])[:300]} after crash '
                                   f'{first}', tag))
            # bounded time
            if h.get('ret', 0) > first['seq'] and h.get('now') is not None:
                dt = h['now'] - first.get('now', 0.0)
                info['max_unblock_s'] = max(info.get('max_unblock_s', 0.0),
                                            dt)
                if dt > BOUND_S:
                    out.append(C.V('CRASH_SLOW', f'client.{h["op"]["op"]}',
                                   f'client {ci} op {h["i"]} returned '
                                   f'{dt:.1f} simulated seconds after the '
                                   f'crash', tag))
    # 3. the rest of the runtime shut down by itself
    if not C.hung(rr):
        alive = getattr(rr, 'alive_at_idle', [])
        if alive:
            kinds = sorted({''.join(ch for ch in n if not ch.isdigit())
                            for n in alive})
            out.append(C.V('CRASH_SURVIVOR', ','.join(kinds),
                           f'still running at idle quiescence after crash '
                           f'{first}: {alive}; blocked: '
                           f'{getattr(rr, "idle_blocked", None)}', tag))
    # body counts: at most once each
    counts = C.body_counts(rr)
    for nid, n in counts.items():
        if n > 1:
            out.append(C.V('BODY_COUNT(2+)', 'task',
                           f'node {nid} started {n} times', tag))
    return C._dedup(out)
