"""Topologies: which simulated processes exist and how they are started.

All nodes run the real constructors and main loops of the runtime.
"""
from __future__ import annotations

SERVER_PORT = 7000
WORKER_PORT = 7001


def start_detached(sim, managers: list[int]) -> None:
    """`managers[i]` = number of workers of manager i.  Starts one node per
    manager (each spawning its worker nodes) and one detached server."""
    from bqskit.runtime.detached import DetachedServer
    from bqskit.runtime.manager import Manager

    ipports = []
    for i, nw in enumerate(managers):
        port = 7100 + i
        wport = 7200 + i
        ipports.append(('localhost', port))

        def manager_main(port=port, nw=nw, wport=wport) -> None:
            Manager(port, nw, None, wport).run()

        sim.spawn(sim.node(f'm{i}', 'manager'), manager_main,
                  name=f'm{i}/main')

    def server_main() -> None:
        DetachedServer(ipports, SERVER_PORT).run()

    sim.spawn(sim.node('server', 'server'), server_main, name='server/main')


def start_attached_external(sim, num_workers: int) -> None:
    """An AttachedServer started as its own node (not through the client's
    Popen): used when several scripted phases need the server before a
    client exists.  Normally the client starts it via Compiler()."""
    from bqskit.runtime.attached import start_attached_server

    def server_main() -> None:
        start_attached_server(num_workers, port=SERVER_PORT,
                              worker_port=WORKER_PORT)

    sim.spawn(sim.node('server', 'server'), server_main, name='server/main')


def describe(topo: dict) -> str:
    if topo['kind'] in ('attached', 'compile'):
        return f"{topo['kind']}/{topo['workers']}w"
    return 'detached/' + 'x'.join(str(n) for n in topo['managers'])


def expected_workers(topo: dict) -> int:
    if topo['kind'] == 'attached':
        return topo['workers']
    return sum(topo['managers'])
