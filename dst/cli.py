"""Command line of the checks (invoked through /verif/check)."""
from __future__ import annotations

import argparse
import json
import os
import sys
import time

VERIF = os.path.dirname(os.path.dirname(os.path.abspath(__file__)))
sys.path.insert(0, VERIF)

TIERS = {
    # property: tier: (runs, wall budget seconds, per-run timeout)
    'C07': {'quick': (8000, 200, 90), 'thorough': (120000, 1700, 120)},
    'C12': {'quick': (6000, 200, 90), 'thorough': (90000, 1700, 120)},
    'C13': {'quick': (6000, 200, 90), 'thorough': (90000, 1700, 120)},
    'C14': {'quick': (8000, 200, 90), 'thorough': (120000, 1700, 120)},
    'C15': {'quick': (8000, 200, 90), 'thorough': (120000, 1700, 120)},
    'C11': {'quick': (5000, 200, 90), 'thorough': (70000, 1700, 120)},
    'C01': {'quick': (160, 200, 90), 'thorough': (2500, 1750, 620)},
    'C02': {'quick': (160, 200, 90), 'thorough': (2500, 1750, 620)},
    'C03': {'quick': (140, 200, 90), 'thorough': (1500, 1750, 620)},
}


def cmd_check(a) -> int:
    from dst import report
    from dst import runner
    prop = a.prop
    tier = a.tier or os.environ.get('VERIF_TIER') or 'quick'
    if tier not in ('quick', 'thorough'):
        tier = 'quick'
    verif_seed = int(os.environ.get('VERIF_SEED', '0') or 0)
    if a.seed is not None:
        verif_seed = a.seed
    runs, budget, rto = TIERS[prop][tier]
    if a.runs:
        runs = a.runs
    if a.budget:
        budget = a.budget
    procs = a.procs or min(16, os.cpu_count() or 1)
    print(f'[{prop}] tier={tier} VERIF_SEED={verif_seed} runs<={runs} '
          f'procs={procs} budget={budget}s repo={report.repo_head()[:10]}',
          flush=True)
    t0 = time.time()
    results = runner.run_batch(prop, tier, verif_seed, runs, procs, budget,
                               run_timeout=rto)
    wall = time.time() - t0
    ev, vd = report.aggregate(prop, tier, verif_seed, results, wall)
    known = report.load_known()
    rc = 0
    lines = []
    new_sigs = []
    seen_known: dict = {}
    for sig, cnt in sorted(vd['sigs'].items()):
        k = report.match_known(prop, sig, known)
        if k is not None:
            e = seen_known.setdefault(k['signature'], [k, 0, []])
            e[1] += cnt
            e[2].append(sig)
        else:
            new_sigs.append(sig)
    for k, cnt, sigs in seen_known.values():
        lines.append(f'KNOWN-FINDING: property={prop} {k["what"]} '
                     f'({cnt} runs; signatures: {"; ".join(sigs[:4])}'
                     f'{" ..." if len(sigs) > 4 else ""})')
    if new_sigs and not a.no_minimise:
        from dst import shrink
    for k_sig, sig in enumerate(new_sigs):
        res, v = vd['first'][sig]
        mini = None
        # minimise the first few new signatures; the rest get their full
        # (exactly replayable) recording
        if not a.no_minimise and k_sig < 3:
            try:
                mini = shrink.minimise(prop, res, v, budget_s=a.min_budget)
            except Exception as e:  # minimiser trouble never hides a bug
                print(f'  (minimiser failed: {e!r}; writing full replay)',
                      file=sys.stderr)
        path = report.write_replay(prop, res, v, verif_seed, tier, mini)
        lines.append(f'VIOLATION property={prop} replay={path}')
        lines.append(f'  signature: {sig}  ({vd["sigs"][sig]} runs)')
        lines.append(f'  message: {v["msg"][:400]}')
        rc = 1
    # harness health: never report a pass when the harness did not work
    bad = vd['n'] - vd['ok']
    harness_msgs = sorted({(r.get('status'), (r.get('status_msg') or '')[:300])
                           for r in results
                           if r.get('status') in ('harness-error',
                                                  'parent-error',
                                                  'diverged')})
    ev['coverage']['known_findings_seen'] = [ln for ln in lines
                                             if ln.startswith('KNOWN')]
    # `violations` counts what makes the check exit 1: hits of signatures
    # that known_findings.json does not list; hits of listed findings are
    # reported separately
    ev['coverage']['known_finding_hits'] = sum(
        cnt for k, cnt, sigs in seen_known.values())
    ev['violations'] = sum(vd['sigs'][sig] for sig in new_sigs)
    ev['coverage']['inconclusive'] = {
        k: v for k, v in vd['by_status'].items() if k != 'ok'}
    if not os.environ.get('DST_NO_EVIDENCE'):
        report.write_evidence(prop, ev)
    for ln in lines:
        print(ln)
    print(f'[{prop}] {vd["n"]} runs ({vd["ok"]} conclusive, '
          f'{vd["nontrivial"]} non-trivial, '
          f'{ev["coverage"]["distinct_nontrivial"]} distinct traces) in '
          f'{wall:.0f}s; statuses {dict(vd["by_status"])}', flush=True)
    if rc == 0:
        if harness_msgs:
            for st, m in harness_msgs[:5]:
                print(f'HARNESS-ERROR: {st}: {m}')
            return 2
        if vd['n'] == 0 or vd['ok'] * 2 < vd['n'] or vd['nontrivial'] < 2:
            print(f'HARNESS-ERROR: too few conclusive/non-trivial runs '
                  f'({vd["ok"]}/{vd["n"]}, {vd["nontrivial"]} non-trivial)')
            return 2
    return rc


def cmd_replay(a) -> int:
    from dst import engines
    from dst import props
    from dst import runner
    with open(a.path) as f:
        doc = json.load(f)
    prop = doc['property']

    def child():
        decisions = [tuple(d) for d in doc['decisions']]
        rr = engines.execute(doc['scenario'], decisions=decisions,
                             verbose=a.verbose)
        vs = props.evaluate(prop, rr) if rr.status == 'ok' else []
        return {'status': rr.status, 'status_msg': rr.status_msg,
                'violations': vs,
                'digest': rr.sim.digest() if rr.sim else None}
    runner._warm()
    res = runner.fork_run(child, (), 600)
    want = doc['violation']['sig']
    got = sorted(v['sig'] for v in res.get('violations') or [])
    print(f'replay {a.path}: status={res["status"]} {res.get("status_msg")}')
    print(f'  expected signature: {want}')
    print(f'  observed signatures: {got}')
    print(f'  trace digest: expected {doc.get("trace_digest")} observed '
          f'{res.get("digest")}')
    if res['status'] == 'diverged':
        print('REPLAY-DIVERGED (the code changed the schedule space; the '
              'recorded decisions no longer apply)')
        return 2
    if res['status'] != 'ok':
        print('HARNESS-ERROR')
        return 2
    if want in got:
        same = res.get('digest') == doc.get('trace_digest')
        print(f'VIOLATION property={prop} replay={a.path}')
        print('  reproduced' + (' exactly (same trace digest)' if same
                                else ' (same signature, trace differs)'))
        return 1
    print('not reproduced: the property held on this replay')
    return 0


def cmd_run1(a) -> int:
    """Debug: run one index in-process and print everything."""
    from dst import engines
    from dst import props
    tier = a.tier or 'quick'
    verif_seed = int(os.environ.get('VERIF_SEED', '0') or 0)
    seed = props.run_seed(verif_seed, a.prop, tier, a.index) \
        if a.raw_seed is None else a.raw_seed
    scn = props.gen(a.prop, tier, seed)
    if a.dump:
        print(json.dumps(scn, indent=1, default=repr))
    rr = engines.execute(scn, verbose=a.verbose)
    vs = props.evaluate(a.prop, rr) if rr.status == 'ok' else []
    print('status', rr.status, rr.status_msg)
    if rr.sim is not None:
        print('steps', rr.sim.steps, 'digest', rr.sim.digest()[:16],
              'wall', round(rr.wall, 3), 'preempts', rr.sim.preempts)
        print('counters', rr.sim.counters)
    for ci, c in enumerate(getattr(rr, 'clients', [])):
        for h in c['history']:
            print(f' c{ci}', h['i'], h['kind'], str(h['val'])[:300])
    print('info', getattr(rr, 'info', None))
    for v in vs:
        print('VIOLATION', v['sig'])
        print('   ', v['msg'][:2000])
    return 1 if vs else 0


def main() -> int:
    ap = argparse.ArgumentParser()
    sub = ap.add_subparsers(dest='cmd')
    for p in TIERS:
        sp = sub.add_parser(p)
        sp.set_defaults(prop=p, fn=cmd_check)
        sp.add_argument('--tier')
        sp.add_argument('--runs', type=int)
        sp.add_argument('--procs', type=int)
        sp.add_argument('--budget', type=float)
        sp.add_argument('--seed', type=int)
        sp.add_argument('--no-minimise', action='store_true')
        sp.add_argument('--min-budget', type=float, default=60.0)
    sp = sub.add_parser('replay')
    sp.add_argument('path')
    sp.add_argument('-v', '--verbose', action='store_true')
    sp.set_defaults(fn=cmd_replay)
    sp = sub.add_parser('run1')
    sp.add_argument('prop')
    sp.add_argument('index', type=int)
    sp.add_argument('--tier')
    sp.add_argument('--raw-seed', type=int)
    sp.add_argument('-v', '--verbose', action='store_true')
    sp.add_argument('--dump', action='store_true')
    sp.set_defaults(fn=cmd_run1)
    sp = sub.add_parser('selftest')
    sp.add_argument('which', nargs='?', default='fast')
    sp.add_argument('--n', type=int, default=0)
    sp.set_defaults(fn=None)
    a = ap.parse_args()
    if a.cmd is None:
        ap.print_help()
        return 2
    if a.cmd == 'selftest':
        from selftest import main as st
        return st.main(a.which, a.n)
    return a.fn(a)


if __name__ == '__main__':
    try:
        rc = main()
    except KeyboardInterrupt:
        rc = 2
    sys.stdout.flush()
    sys.exit(rc)
