"""Engine `simrt`: run the real BQSKit runtime (server, managers, workers,
clients) in one process under the simulator, driven by a JSON scenario.

    execute(scenario, decisions=None) -> RunRecord

Phases: workload (clients run their scripts, then park at the harness
barrier with connections open) -> idle quiescence (idle-state oracles
look at the live system) -> shutdown (clients close; detached servers get
SIGINT) -> final quiescence (exit oracles).
"""
from __future__ import annotations

import gc
import logging
import random
import signal as real_signal
import time as real_time

from dst import preempt
from dst import topo as topo_mod
from dst import wire
from dst.sched import HarnessError
from dst.sched import ReplayDiverged
from dst.sched import Sim
from dst.sched import SimKilled
from dst.sched import StepCap


class RunRecord:
    """Everything the oracles may look at."""

    def __init__(self, scn: dict) -> None:
        self.scn = scn
        self.sim: Sim | None = None
        self.rec: list = []
        self.clients: list[dict] = []
        self.idle_snapshot: dict | None = None
        self.final_snapshot: dict | None = None
        self.status = 'ok'          # ok | stepcap | harness-error | diverged
        self.status_msg = ''
        self.monitor_violations: list = []
        self.phase = 0
        self.phase_steps: list[int] = []
        self.wall = 0.0
        self.client_logs: list = []
        self.crashes: list = []
        self.preempt_missing: list = []


class ClientLogHandler(logging.Handler):
    """Collects log records *handled in a client process*.  Records created
    in other simulated processes reach this (shared, in-interpreter) logger
    object directly; a real worker would drop them (no handlers), so they
    are ignored here."""

    def __init__(self, sim, sink: list) -> None:
        super().__init__(level=0)
        self.sim = sim
        self.sink = sink

    def emit(self, record) -> None:
        t = self.sim.cur_or_none()
        if t is None or t.node.kind != 'client' or t.node.dead:
            return
        try:
            msg = record.getMessage()
        except Exception:
            msg = str(record.msg)
        self.sink.append((t.node.name, record.name, record.levelno, msg))


def exc_chain(e: BaseException) -> list:
    out = []
    seen = set()
    while e is not None and id(e) not in seen:
        seen.add(id(e))
        out.append((type(e).__name__, str(e)[-3000:]))
        e = e.__cause__ or e.__context__
    return out


def _client_main(sim, rr: RunRecord, ci: int, cspec: dict, shared: dict):
    """Interpret one client's script with the real Compiler API."""
    from bqskit.compiler.compiler import Compiler
    from bqskit.ir.circuit import Circuit

    from dst.workload.bodies import TreePass
    out = rr.clients[ci]
    hist = out['history']
    topo = rr.scn['topo']
    comp = None

    def note(i, op, kind, val=None):
        sim.seq += 1
        hist.append({'seq': sim.seq, 'i': i, 'op': op, 'kind': kind,
                     'val': val})

    def resolve(ref):
        # 'tK' own task, 'cJ:tK' another client's, 'unknown'
        import uuid
        if ref == 'unknown':
            return uuid.UUID(int=10 ** 9 + ci)
        if ':' in ref:
            who, name = ref.split(':')
            tid = shared['ids'].get((int(who[1:]), name))
        else:
            tid = shared['ids'].get((ci, ref))
        if tid is None:
            # not submitted (yet): a well-formed id nobody has issued
            tid = uuid.UUID(int=2 * 10 ** 9 + ci)
        return tid

    try:
        sim.log('CLIENT-START', ci)
        if cspec.get('delay'):
            sim.sleep(cspec['delay'])
        try:
            if topo['kind'] == 'compile':
                comp = 'inline'   # bqskit.compile() builds its own
            elif topo['kind'] == 'attached':
                comp = Compiler(num_workers=topo['workers'])
            else:
                comp = Compiler(ip='localhost', port=topo_mod.SERVER_PORT)
        except Exception as e:
            note(-1, 'connect', 'exc', exc_chain(e))
            out['connected'] = False
            comp = None
        else:
            out['connected'] = True
            sim.log('CLIENT-CONNECTED', ci)
        out['compiler'] = comp
        conn0 = getattr(comp, 'conn', None)
        for i, op in enumerate(cspec['script']):
            if comp is None:
                break
            k = op['op']
            sim.seq += 1
            inv = sim.seq
            sim.log('CLIENT-OP', ci, i, k, op.get('t', ''))
            try:
                if k == 'compile':
                    p = TreePass(op['prog'])
                    c, d = comp.compile(Circuit(1), [p], request_data=True,
                                        logging_level=30)
                    val = ('value', d['out'] if 'out' in d else None)
                elif k == 'bq_compile':
                    import bqskit

                    from dst.workload import compile_inputs as CI
                    inp = CI.build_input(op['input'])
                    model = CI.build_model(op['model'])
                    o = op['opts']
                    res = bqskit.compile(
                        inp, model,
                        optimization_level=o['optimization_level'],
                        max_synthesis_size=o.get('max_synthesis_size', 3),
                        seed=o.get('seed'), with_mapping=True,
                        num_workers=o['num_workers'])
                    if op['input']['kind'] == 'list':
                        specs = op['input']['items']
                        objs = inp
                        rs = list(res)
                    else:
                        specs, objs, rs = [op['input']], [inp], [res]
                    val = ('compiled', [
                        (sp, ob, r[0], tuple(r[1]), tuple(r[2]), model)
                        for sp, ob, r in zip(specs, objs, rs)]
                        + [(None, None, r[0], tuple(r[1]), tuple(r[2]),
                            model) for r in rs[len(specs):]])
                elif k == 'compile_wf':
                    from dst.oracles import c11
                    from dst.workload import passes as P
                    circ = P.build_circuit(op['circ'])
                    c, d = comp.compile(circ, P.build(op['wf']),
                                        request_data=True, logging_level=30)
                    val = ('passres', c11.summarize(c, d))
                elif k == 'submit':
                    tid = comp.submit(Circuit(1), [TreePass(op['prog'])],
                                      request_data=True, logging_level=30)
                    shared['ids'][(ci, op['as'])] = tid
                    val = ('submitted', str(tid))
                elif k == 'result':
                    r = comp.result(resolve(op['t']))
                    if isinstance(r, tuple) and len(r) == 2:
                        val = ('value', r[1]['out'] if 'out' in r[1]
                               else None)
                    else:
                        val = ('raw', repr(r)[:200])
                elif k == 'status':
                    s = comp.status(resolve(op['t']))
                    val = ('status', getattr(s, 'name', repr(s)))
                elif k == 'cancel':
                    r = comp.cancel(resolve(op['t']))
                    val = ('cancelled', r)
                elif k == 'close':
                    comp.close()
                    val = ('closed', None)
                elif k == 'sleep':
                    sim.sleep(op['d'])
                    val = ('slept', None)
                elif k == 'wait_steps':
                    # let the rest of the system take n scheduler steps
                    # (or fall quiet, whichever comes first): places the
                    # next request at an arbitrary point of the run
                    target = sim.steps + int(op['n'])
                    sim.block(lambda: sim.steps >= target,
                              f'wait_steps {op["n"]}',
                              deadline=sim.now + 0.05)
                    val = ('waited', None)
                else:
                    raise HarnessError(f'unknown client op {k}')
            except HarnessError:
                raise
            except Exception as e:
                if getattr(comp, 'conn', 0) is None and conn0 is not None \
                        and not conn0.closed:
                    # the client's error path drops its only reference to
                    # the connection (`self.conn = None`): CPython's
                    # reference counting finalises and closes it at once
                    sim.log('DEL-CLOSE', ci)
                    conn0.close()
                sim.log('CLIENT-OP-EXC', ci, i, type(e).__name__)
                hist.append({'seq': inv, 'i': i, 'op': op, 'kind': 'exc',
                             'val': exc_chain(e), 'ret': sim.seq + 1,
                             'now': sim.now})
                sim.seq += 1
            else:
                sim.log('CLIENT-OP-OK', ci, i, val[0])
                hist.append({'seq': inv, 'i': i, 'op': op, 'kind': 'ok',
                             'val': val, 'ret': sim.seq + 1,
                             'now': sim.now})
                sim.seq += 1
        out['script_done'] = True
        sim.log('CLIENT-SCRIPT-DONE', ci)
        sim.barrier('idle')
        if comp is not None and comp != 'inline':
            try:
                comp.close()
                out['closed'] = True
            except Exception as e:
                out['close_exc'] = exc_chain(e)
        sim.log('CLIENT-END', ci)
    finally:
        out['ended'] = True


def snapshot(sim: Sim) -> dict:
    """White-box view of every live node, through the attribute names the
    properties' anchors give.  Missing attributes are reported as such."""
    snap = {'workers': {}, 'servers': {}, 'missing': []}

    def get(obj, name):
        if not hasattr(obj, name):
            snap['missing'].append(f'{type(obj).__name__}.{name}')
            return None
        return getattr(obj, name)

    for node in sim.nodes.values():
        if node.dead:
            continue
        if node.kind == 'worker' and node.worker is not None:
            w = node.worker
            tasks = get(w, '_tasks')
            delayed = get(w, '_delayed_tasks')
            boxes = get(w, '_mailboxes')
            ready = get(w, '_ready_task_ids')
            snap['workers'][node.name] = {
                'id': get(w, '_id'),
                'tasks': None if tasks is None else [
                    (tuple(a), tuple(tuple(b) for b in t.breadcrumbs),
                     t.comp_task_id, list(t.owned_mailboxes))
                    for a, t in tasks.items()],
                'delayed': None if delayed is None else [
                    (tuple(t.return_address),
                     tuple(tuple(b) for b in t.breadcrumbs), t.comp_task_id)
                    for t in delayed],
                'mailboxes': None if boxes is None else sorted(boxes.keys()),
                'ready': None if ready is None else list(
                    tuple(a) for a in ready.q),
                'cancelled': sorted(tuple(a) for a in
                                    (get(w, '_cancelled_task_ids') or ())),
            }
        srv = node.scratch.get('server')
        if srv is not None and node.kind in ('server', 'manager'):
            emps = get(srv, 'employees') or []
            d = {
                'kind': node.kind,
                'cls': type(srv).__name__,
                'num_idle_workers': get(srv, 'num_idle_workers'),
                'total_workers': get(srv, 'total_workers'),
                'running': get(srv, 'running'),
                'employees': [
                    {'id': e.id, 'num_tasks': e.num_tasks,
                     'num_idle_workers': e.num_idle_workers,
                     'total_workers': e.total_workers,
                     'is_manager': e.is_manager,
                     'conn': getattr(e.conn, 'label', '?'),
                     'submit_cache': len(e.submit_cache)}
                    for e in emps],
            }
            if node.kind == 'server':
                mb = get(srv, 'mailboxes')
                d['mailboxes'] = None if mb is None else sorted(mb.keys())
                tk = get(srv, 'tasks')
                d['tasks'] = None if tk is None else {
                    str(k): v[0] for k, v in tk.items()}
                m2t = get(srv, 'mailbox_to_task_dict')
                d['mailbox_to_task'] = None if m2t is None else {
                    k: str(v) for k, v in m2t.items()}
                cl = get(srv, 'clients')
                d['clients'] = None if cl is None else [
                    (getattr(c, 'label', '?'), sorted(str(x) for x in s))
                    for c, s in cl.items()]
            snap['servers'][node.name] = d
    return snap


def install_server_registry(sim: Sim) -> None:
    import bqskit.runtime.base as base
    if not hasattr(base.ServerBase, '__init__'):
        raise HarnessError('ServerBase.__init__ missing')
    orig = base.ServerBase.__dict__['__init__']
    if getattr(orig, '_dst_wrapped', False):
        orig = orig._dst_orig

    def init(self, *a, **k):
        t = sim.cur_or_none()
        if t is not None:
            t.node.scratch['server'] = self
        return orig(self, *a, **k)

    init._dst_wrapped = True
    init._dst_orig = orig
    base.ServerBase.__init__ = init


def execute(scn: dict, decisions: list | None = None, verbose: bool = False,
            lenient: bool = False, monitors: list | None = None,
            ) -> RunRecord:
    from dst.workload import bodies
    rr = RunRecord(scn)
    # members of a crash-point sweep family share one scheduler seed
    seed = scn.get('sched_seed', scn['seed'])
    sim = Sim(seed, policy=scn.get('policy'), decisions=decisions,
              max_steps=scn.get('max_steps', 200_000), lenient=lenient)
    sim.verbose = verbose
    rr.sim = sim
    gc.disable()
    t0 = real_time.time()
    bodies.REC.clear()
    bodies.SIM[0] = sim
    rr.rec = bodies.REC
    arng = random.Random(repr(('assign', seed)))
    try:
        wire.install(sim, arng.getrandbits(64))
        install_server_registry(sim)
    except HarnessError as e:
        rr.status, rr.status_msg = 'harness-error', str(e)
        return rr

    # logging: nothing is printed; client-side handler collects records
    root = logging.getLogger()
    root.handlers.clear()
    logging.lastResort = None
    root.setLevel(logging.WARNING)
    logging.getLogger('bqskit').setLevel(logging.CRITICAL + 1)
    blog = logging.getLogger('verif.bodies')
    blog.handlers.clear()
    blog.setLevel(logging.WARNING)
    blog.propagate = False
    blog.addHandler(ClientLogHandler(sim, rr.client_logs))

    pol = scn.get('policy') or {}
    if pol.get('preempt_gap', 0) > 0:
        rr.preempt_missing = preempt.install(
            sim, pol.get('preempt_funcs') or preempt.WORKER_FUNCS)

    topo = scn['topo']
    shared = {'ids': {}}
    if topo['kind'] == 'detached':
        topo_mod.start_detached(sim, topo['managers'])
    for ci, cspec in enumerate(scn['clients']):
        rr.clients.append({'history': [], 'connected': None,
                           'script_done': False, 'ended': False})
        sim.spawn(sim.node(f'c{ci}', 'client'), _client_main,
                  (sim, rr, ci, cspec, shared), name=f'c{ci}/main')

    def arm_timers(ev) -> None:
        if ev[1] == 'CLIENT-OP':
            sim.timers_armed = True
    sim.event_watchers.append(arm_timers)

    # fault plan
    from dst import faults
    faults.install(sim, rr, scn.get('faults') or [])
    from dst import monitors as monitors_mod
    for name in scn.get('monitors') or []:
        monitors_mod.MONITORS[name]().install(sim, rr)

    def on_quiescence(sim_: Sim) -> bool:
        rr.phase_steps.append(sim_.steps)
        if rr.phase == 0:
            rr.phase = 1
            sim_.log('PHASE', 'idle')
            rr.idle_snapshot = snapshot(sim_)
            rr.idle_blocked = sim_.blocked_report()
            rr.idle_seq = sim_.seq
            rr.idle_now = sim_.now
            rr.alive_at_idle = [n.name for n in sim_.nodes.values()
                                if n.kind in ('server', 'manager', 'worker')
                                and not n.dead]
            for ci, c in enumerate(rr.clients):
                c['killed'] = sim_.nodes[f'c{ci}'].exit_how == 'crash'
                c['done_at_idle'] = bool(c['script_done']) or c['killed']
                c['ops_done_at_idle'] = len(
                    [h for h in c['history'] if h['i'] >= 0])
            sim_.release('idle')
            return True
        if rr.phase == 1:
            rr.phase = 2
            sim_.log('PHASE', 'shutdown')
            acted = False
            for node in sim_.nodes.values():
                if node.kind == 'server' and not node.dead:
                    sim_.signal_node(node, int(real_signal.SIGINT))
                    acted = True
            return acted
        if rr.phase == 2:
            rr.phase = 3
            # operator interrupts managers that are still up
            acted = False
            for node in sim_.nodes.values():
                if node.kind == 'manager' and not node.dead:
                    sim_.signal_node(node, int(real_signal.SIGINT))
                    acted = True
            return acted
        return False

    sim.quiescence_hooks.append(on_quiescence)
    try:
        sim.run()
    except StepCap as e:
        rr.status, rr.status_msg = 'stepcap', str(e)
    except ReplayDiverged as e:
        rr.status, rr.status_msg = 'diverged', str(e)
    except HarnessError as e:
        rr.status, rr.status_msg = 'harness-error', str(e)
    finally:
        preempt.uninstall()
    if sim.internal_errors:
        rr.status = 'harness-error'
        rr.status_msg = '; '.join(sim.internal_errors)[:500]
    rr.final_snapshot = snapshot(sim) if rr.status == 'ok' else None
    rr.final_blocked = sim.blocked_report()
    rr.wall = real_time.time() - t0
    return rr
