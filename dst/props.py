"""Per-property scenario generators and evaluation entry points.

`gen(prop, tier, run_seed, index)` is a pure function of its arguments: one
integer decides the whole scenario (topology, workload, fault plan,
exploration strategy).
"""
from __future__ import annotations

import hashlib
import random

from dst import preempt
from dst.workload import tasktree


# Crash-point sweeps (C14): run indices are grouped into families of
# FAMILY[tier] consecutive indices.  All members of a family share the 36
# high bits of their run seed (the family id); the low 12 bits are the
# member number.  A family that its own PRNG declares a *sweep family*
# keeps workload, topology, policy and scheduler seed fixed and lets the
# member number enumerate (victim, crash step); the other families use the
# whole seed as entropy, i.e. are independent samples as before.
SWEEP_PROPS = {'C14'}
FAMILY = {'quick': 256, 'thorough': 1024}
P_SWEEP_FAMILY = 0.4


def run_seed(verif_seed: int, prop: str, tier: str, i: int) -> int:
    if prop in SWEEP_PROPS:
        fam_size = FAMILY.get(tier, 256)
        h = hashlib.sha256(
            f'{verif_seed}/{prop}/{tier}/family{i // fam_size}'.encode()
        ).digest()
        return (int.from_bytes(h[:6], 'big') >> 12 << 12) | (i % fam_size)
    h = hashlib.sha256(f'{verif_seed}/{prop}/{tier}/{i}'.encode()).digest()
    return int.from_bytes(h[:6], 'big')


def worker_names(topo: dict) -> list[str]:
    if topo['kind'] == 'attached':
        return [f'w{i}' for i in range(topo['workers'])]
    d = len(topo['managers'])
    step = (2 ** 30) // d
    return [f'w{i * step + j}' for i, n in enumerate(topo['managers'])
            for j in range(n)]


def gen_topo(rng: random.Random, p_attached: float = 0.6,
             max_workers: int = 4, max_managers: int = 3) -> dict:
    if rng.random() < p_attached:
        return {'kind': 'attached', 'workers': rng.randint(1, max_workers)}
    m = rng.randint(1, max_managers)
    return {'kind': 'detached',
            'managers': [rng.randint(1, 3) for _ in range(m)]}


def swarm_policy(rng: random.Random, topo: dict, funcs: list[str],
                 p_preempt: float = 0.6, horizon: int = 1500) -> dict:
    r = rng.random()
    pol: dict = {}
    if r < 0.4:
        pol['kind'] = 'uniform'
    elif r < 0.7:
        pol['kind'] = 'sticky'
        pol['p_stick'] = rng.choice([0.5, 0.8, 0.95])
    else:
        pol['kind'] = 'pct'
        d = rng.randint(1, 3)
        pol['pct_changes'] = sorted(rng.randrange(20, horizon)
                                    for _ in range(d))
    pol['w_deliver'] = rng.choice([0.3, 1.0, 1.0, 3.0])
    if rng.random() < 0.25:
        pol['timers'] = 'anytime'
    if rng.random() < 0.25:
        ws = worker_names(topo)
        cands = [f'T:{w}/' for w in ws] + [f'>{w}' for w in ws]
        if topo['kind'] == 'detached':
            for i in range(len(topo['managers'])):
                cands += [f'T:m{i}/', f'>m{i}', f'D:m{i}>']
        cands += ['T:server/', 'D:server>']
        a = rng.randrange(20, horizon)
        pol['starve'] = {'match': rng.choice(cands), 'from': a,
                         'to': a + rng.randrange(30, 400)}
    if rng.random() < p_preempt:
        pol['preempt_gap'] = rng.choice([200, 50, 15])
        k = rng.randint(max(1, len(funcs) // 2), len(funcs))
        pol['preempt_funcs'] = sorted(rng.sample(funcs, k))
    else:
        pol['preempt_gap'] = 0
    return pol


# ------------------------------------------------------------------- C07
def gen_c07(rng: random.Random, tier: str) -> dict:
    topo = gen_topo(rng)
    big = tier == 'thorough'
    prog = tasktree.gen_program(
        rng,
        max_nodes=rng.choice([6, 12, 25, 40] + ([80, 120] if big else [])),
        max_depth=rng.randint(2, 4), max_fanout=rng.randint(2, 5),
        payloads=rng.random() < 0.25, id_base=0,
    )
    funcs = preempt.WORKER_FUNCS
    if rng.random() < 0.3:
        funcs = funcs + preempt.SCHED_FUNCS + preempt.SERVER_FUNCS
    clients = [{'script': [{'op': 'compile', 'prog': prog}]}]
    if topo['kind'] == 'detached' and rng.random() < 0.4:
        # several compilations in flight, from one or two clients: each
        # result() must return the output of its own task
        clients = []
        for ci in range(rng.choice([1, 2, 2])):
            script, names = [], []
            for k in range(rng.randint(1, 3)):
                p = tasktree.gen_program(
                    rng, max_nodes=rng.choice([4, 8, 15]),
                    max_depth=rng.randint(2, 3),
                    max_fanout=rng.randint(2, 4),
                    payloads=rng.random() < 0.25,
                    id_base=10000 * ci + 1000 * k)
                script.append({'op': 'submit', 'as': f't{k}', 'prog': p})
                names.append(f't{k}')
            rng.shuffle(names)
            for nm in names:
                script.append({'op': 'result', 't': nm})
            clients.append({'script': script})
    return {
        'topo': topo,
        'clients': clients,
        'policy': swarm_policy(rng, topo, funcs),
        'faults': [],
    }


# ------------------------------------------------------------------- C15
def gen_c15(rng: random.Random, tier: str) -> dict:
    topo = gen_topo(rng, p_attached=0.55)
    big = tier == 'thorough'
    cancels = rng.random() < 0.4
    prog = tasktree.gen_program(
        rng,
        max_nodes=rng.choice([6, 12, 25, 40] + ([80, 120] if big else [])),
        max_depth=rng.randint(2, 4), max_fanout=rng.randint(2, 5),
        cancels=cancels, id_base=0,
    )
    funcs = preempt.WORKER_FUNCS + preempt.WORKER_CANCEL_FUNCS \
        + preempt.SCHED_FUNCS
    pol = swarm_policy(rng, topo, funcs)
    if rng.random() < 0.35:
        # bias towards a WAITING crossing a SUBMIT_BATCH: starve one
        # boss->worker channel for a while
        w = rng.choice(worker_names(topo))
        a = rng.randrange(20, 600)
        pol['starve'] = {'match': f'>{w}', 'from': a,
                         'to': a + rng.randrange(30, 300)}
    script = [{'op': 'compile', 'prog': prog}]
    if rng.random() < 0.3:
        # a client cancels a compilation at an arbitrary point of its run
        # (in particular: between the worker finishing the root task and
        # the server reading its RESULT), then compiles again
        small = tasktree.gen_program(
            rng, max_nodes=rng.choice([1, 2, 4, 8]), max_depth=2,
            max_fanout=3, id_base=5000)
        script = [{'op': 'submit', 'as': 't0', 'prog': small},
                  {'op': 'wait_steps', 'n': rng.choice(
                      [0, 5, 10, 15, 20, 25, 30, 40, 50, 70, 100, 150])},
                  {'op': 'cancel', 't': 't0'}]
        if rng.random() < 0.6:
            script.append({'op': 'compile', 'prog': prog})
    return {
        'topo': topo,
        'clients': [{'script': script}],
        'policy': pol,
        'faults': [],
        'monitors': ['bookkeeping'],
    }


# ------------------------------------------------------------------- C12
def client_script_c12(rng: random.Random, ci: int, nprog: int,
                      max_nodes: int, base: int) -> list:
    progs = []
    for k in range(nprog):
        mode = rng.choice(['compile', 'result', 'result', 'cancel',
                           'cancel', 'abandon'])
        prog = tasktree.gen_program(
            rng, max_nodes=max_nodes, max_depth=rng.randint(2, 4),
            max_fanout=rng.randint(2, 5), cancels=rng.random() < 0.7,
            await_cancelled=rng.random() < 0.08,
            id_base=base + 1000 * k,
        )
        progs.append((f't{k}', mode, prog))
    script = []
    tail = []
    for name, mode, prog in progs:
        if mode == 'compile':
            script.append({'op': 'compile', 'prog': prog})
            continue
        script.append({'op': 'submit', 'as': name, 'prog': prog})
        if mode == 'result':
            tail.append([{'op': 'result', 't': name}])
        elif mode == 'cancel':
            ops = []
            if rng.random() < 0.3:
                ops.append({'op': 'sleep', 'd': 0.01})   # cancel when idle
            ops.append({'op': 'cancel', 't': name})
            if rng.random() < 0.15:
                ops.append({'op': 'result', 't': name})  # must fail
            if rng.random() < 0.5:
                # cancel right away, before later submits
                script.extend(ops)
            else:
                tail.append(ops)
    rng.shuffle(tail)
    # a result() after cancel disconnects the client: keep it last
    tail.sort(key=lambda ops: any(o['op'] == 'result' for o in ops)
              and any(o['op'] == 'cancel' for o in ops))
    for ops in tail:
        script.extend(ops)
    return script


def gen_c12(rng: random.Random, tier: str) -> dict:
    big = tier == 'thorough'
    topo = gen_topo(rng, p_attached=0.45)
    ncl = 1 if topo['kind'] == 'attached' else rng.choice([1, 2, 2, 3])
    clients = []
    for ci in range(ncl):
        nprog = rng.choice([1, 1, 2, 3])
        mn = rng.choice([6, 12, 20] + ([40, 60] if big else []))
        clients.append({'script': client_script_c12(
            rng, ci, nprog, mn, base=10000 * ci)})
    funcs = preempt.WORKER_FUNCS + preempt.WORKER_CANCEL_FUNCS
    if rng.random() < 0.4:
        funcs = funcs + preempt.SERVER_FUNCS
    faults = []
    if ncl > 1 and rng.random() < 0.15:
        faults.append({'kind': 'crash',
                       'victim': {'kind': 'client',
                                  'index': rng.randrange(ncl)},
                       'trigger': {'type': 'steps_after_first_op',
                                   'n': rng.randrange(5, 600)}})
    return {
        'topo': topo,
        'clients': clients,
        'policy': swarm_policy(rng, topo, funcs),
        'faults': faults,
    }


# ------------------------------------------------------------------- C13
REQ_OPS = ['status', 'result', 'cancel']


def gen_c13(rng: random.Random, tier: str) -> dict:
    big = tier == 'thorough'
    m = rng.randint(1, 3)
    topo = {'kind': 'detached',
            'managers': [rng.randint(1, 2) for _ in range(m)]}
    ncl = rng.choice([1, 2, 2, 3])
    clients = []
    mode = rng.random()
    # calm runs: nothing raises and nobody asks for the *result* of a task
    # that is not its own live one, so no connection is closed early and
    # the request sequences run to their full length
    calm = 0.3 <= mode < 0.6
    for ci in range(ncl):
        script = []
        nprog = rng.choice([1, 1, 2, 3])
        names = []
        for k in range(nprog):
            # await of a future the task cancelled itself: also an error
            # raised by the runtime on the task's behalf
            dead = not calm and rng.random() < 0.12
            prog = tasktree.gen_program(
                rng, max_nodes=rng.choice([4, 8, 15] + ([30] if big else [])),
                max_depth=rng.randint(2, 3), max_fanout=rng.randint(2, 4),
                raises=0 if calm else rng.choice([0, 0, 0, 1, 1, 2]),
                logs=True, id_base=10000 * ci + 1000 * k,
                cancels=dead, await_cancelled=dead,
            )
            if not calm and not dead and rng.random() < 0.15:
                # errors the runtime itself raises on behalf of a task
                tasktree.place_foreign_await(rng, prog)
            script.append({'op': 'submit', 'as': f't{k}', 'prog': prog})
            names.append(f't{k}')
        if mode < 0.3 and ci == 0:
            # a short history the property text names: an ordered pair of
            # requests on one id of a given class
            cls = rng.choice(['own', 'own', 'foreign', 'unknown'])
            if cls == 'own':
                t = names[0]
            elif cls == 'foreign' and ncl > 1:
                t = 'c1:t0'
            else:
                t = 'unknown'
            a, b = rng.choice(REQ_OPS), rng.choice(REQ_OPS)
            if rng.random() < 0.3:
                script.append({'op': 'sleep', 'd': 0.01})
            script.append({'op': a, 't': t})
            script.append({'op': b, 't': t})
        else:
            nreq = rng.randint(1, 6 if not big else 16)
            for _ in range(nreq):
                r = rng.random()
                if r < 0.65:
                    t = rng.choice(names)
                elif r < 0.85 and ncl > 1:
                    other = rng.choice([x for x in range(ncl) if x != ci])
                    t = f'c{other}:t0'
                else:
                    t = 'unknown'
                if rng.random() < 0.15:
                    script.append({'op': 'sleep', 'd': 0.01})
                op = rng.choice(REQ_OPS)
                if calm and op == 'result' and (
                        t not in names
                        or any(o.get('t') == t and o['op'] in
                               ('result', 'cancel') for o in script)):
                    op = 'status'
                script.append({'op': op, 't': t})
        if rng.random() < 0.5:
            prog = tasktree.gen_program(
                rng, max_nodes=6, max_depth=2, max_fanout=3, logs=True,
                id_base=10000 * ci + 9000)
            script.append({'op': 'compile', 'prog': prog})
        # probe: is the server still answering?
        script.append({'op': 'status', 't': 'unknown'})
        clients.append({'script': script})
    funcs = preempt.WORKER_FUNCS + preempt.SERVER_FUNCS
    faults = []
    if ncl > 1 and rng.random() < 0.12:
        # one client process dies mid-conversation: the others must not
        # notice
        faults.append({'kind': 'crash',
                       'victim': {'kind': 'client',
                                  'index': rng.randrange(ncl)},
                       'trigger': {'type': 'steps_after_first_op',
                                   'n': rng.randrange(5, 700)}})
    return {
        'topo': topo,
        'clients': clients,
        'policy': swarm_policy(rng, topo, funcs, p_preempt=0.5),
        'faults': faults,
    }


# ------------------------------------------------------------------- C14
def gen_fault(rng: random.Random, topo: dict) -> dict:
    from dst import faults as faults_mod
    if topo['kind'] == 'detached' and rng.random() < 0.35:
        victim = {'kind': 'manager',
                  'index': rng.randrange(len(topo['managers']))}
        classes = ['got-batch', 'sent-result', 'sent-submit',
                   'sent-waiting', 'fwd-result']
    else:
        victim = {'kind': 'worker', 'index': rng.randrange(9)}
        classes = ['got-batch', 'body-start', 'sent-result',
                   'sent-waiting', 'sent-submit', 'fwd-result']
    if rng.random() < 0.55:
        trig = {'type': 'event', 'cls': rng.choice(classes),
                'nth': rng.choice([1, 1, 2, 3])}
    else:
        trig = {'type': 'steps_after_first_op',
                'n': rng.choice([1, 5, 20]) if rng.random() < 0.2
                else rng.randrange(1, 900)}
    kind = 'sever' if rng.random() < 0.2 else 'crash'
    return {'kind': kind, 'victim': victim, 'trigger': trig,
            'lose_tail': kind == 'crash' and rng.random() < 0.25}


def gen_c14(rng: random.Random, tier: str) -> dict:
    big = tier == 'thorough'
    topo = gen_topo(rng, p_attached=0.5)
    ncl = 1 if topo['kind'] == 'attached' else rng.choice([1, 1, 2, 3])
    clients = []
    for ci in range(ncl):
        script = []
        for k in range(rng.choice([1, 1, 2])):
            prog = tasktree.gen_program(
                rng, max_nodes=rng.choice([6, 12, 25] + ([60] if big else [])),
                max_depth=rng.randint(2, 4), max_fanout=rng.randint(2, 5),
                id_base=10000 * ci + 1000 * k)
            if rng.random() < 0.3:
                # long-running steps: the bound on unblocking clients must
                # not depend on how long surviving workers stay busy
                tasktree.place_busy(rng, prog, rng.choice([1, 2, 3]))
            if rng.random() < 0.6:
                script.append({'op': 'compile', 'prog': prog})
            else:
                script.append({'op': 'submit', 'as': f't{k}', 'prog': prog})
                script.append({'op': 'result', 't': f't{k}'})
        if rng.random() < 0.3:
            script.append({'op': 'status', 't': 'unknown'})
        clients.append({'script': script})
    r = rng.random()
    faults = []
    if r >= 0.3:
        faults.append(gen_fault(rng, topo))
        if r >= 0.8:
            faults.append(gen_fault(rng, topo))
    funcs = preempt.WORKER_FUNCS + preempt.SERVER_FUNCS
    return {
        'topo': topo,
        'clients': clients,
        'policy': swarm_policy(rng, topo, funcs, p_preempt=0.4),
        'faults': faults,
    }


def gen_c14_sweep(frng: random.Random, tier: str, member: int) -> dict:
    """One member of a sweep family: everything but the crash point comes
    from the family PRNG, so all members replay the same schedule up to
    their crash point; the member number enumerates (victim, step)."""
    big = tier == 'thorough'
    topo = gen_topo(frng, p_attached=0.5)
    ncl = 1 if topo['kind'] == 'attached' else frng.choice([1, 1, 2])
    clients = []
    for ci in range(ncl):
        prog = tasktree.gen_program(
            frng, max_nodes=frng.choice([6, 12] + ([25] if big else [])),
            max_depth=frng.randint(2, 4), max_fanout=frng.randint(2, 4),
            id_base=10000 * ci)
        if frng.random() < 0.3:
            tasktree.place_busy(frng, prog, frng.choice([1, 2, 3]))
        if frng.random() < 0.6:
            script = [{'op': 'compile', 'prog': prog}]
        else:
            script = [{'op': 'submit', 'as': 't0', 'prog': prog},
                      {'op': 'result', 't': 't0'}]
        clients.append({'script': script})
    funcs = preempt.WORKER_FUNCS + preempt.SERVER_FUNCS
    policy = swarm_policy(frng, topo, funcs, p_preempt=0.4)
    nw = len(worker_names(topo))
    victims = [{'kind': 'worker', 'index': k} for k in range(nw)]
    if topo['kind'] == 'detached':
        victims += [{'kind': 'manager', 'index': k}
                    for k in range(len(topo['managers']))]
    frng.shuffle(victims)
    victims = victims[:2]
    stride = frng.choice([1, 2]) if big else frng.choice([3, 5, 8])
    offset = frng.randrange(stride)
    kind = 'sever' if frng.random() < 0.2 else 'crash'
    v = victims[member % len(victims)]
    n = 1 + offset + (member // len(victims)) * stride
    return {
        'topo': topo,
        'clients': clients,
        'policy': policy,
        'faults': [{'kind': kind, 'victim': v,
                    'trigger': {'type': 'steps_after_first_op', 'n': n},
                    'lose_tail': False}],
        'sweep': {'member': member, 'victims': len(victims),
                  'stride': stride, 'step': n},
    }


# ------------------------------------------------------------------- C11
def gen_c11(rng: random.Random, tier: str) -> dict:
    from dst.workload import passes as P
    topo = gen_topo(rng, p_attached=0.7, max_managers=2)
    circ = P.gen_circuit(rng, max_width=4 if tier == 'quick' else 5)
    wf = P.gen_workflow(rng)
    funcs = preempt.WORKER_FUNCS + preempt.WORKER_CANCEL_FUNCS
    return {
        'topo': topo,
        'clients': [{'script': [{'op': 'compile_wf', 'wf': wf,
                                 'circ': circ}]}],
        'policy': swarm_policy(rng, topo, funcs, p_preempt=0.4),
        'faults': [],
        'engine': 'simrt',
    }


# ------------------------------------------------------------- C01-C03
def compile_policy(rng: random.Random) -> dict:
    pol = {'kind': rng.choice(['uniform', 'sticky', 'sticky']),
           'p_stick': rng.choice([0.8, 0.95]),
           'w_deliver': rng.choice([0.3, 1.0, 3.0])}
    if rng.random() < 0.35:
        pol['preempt_gap'] = rng.choice([200, 50])
        pol['preempt_funcs'] = preempt.WORKER_FUNCS
    else:
        pol['preempt_gap'] = 0
    return pol


def gen_opts(rng: random.Random, tier: str, n: int) -> dict:
    if tier == 'thorough' and n <= 3:
        lvl = rng.choice([1, 1, 2, 2, 3, 4])
    elif tier == 'thorough' and n == 4:
        lvl = rng.choice([1, 1, 2, 2, 3])
    elif n <= 4 and rng.random() < 0.1:
        lvl = 3     # quick tier: a few level-3 runs (10-40 s each)
    else:
        lvl = rng.choice([1, 1, 2])
    return {'optimization_level': lvl,
            'max_synthesis_size': rng.choice([2, 3, 3]),
            'seed': rng.randrange(10 ** 6),
            'num_workers': rng.randint(1, 4)}


def compile_scn(rng, inp, model, opts) -> dict:
    return {
        'topo': {'kind': 'compile', 'workers': opts['num_workers']},
        'clients': [{'script': [{'op': 'bq_compile', 'input': inp,
                                 'model': model, 'opts': opts}]}],
        'policy': compile_policy(rng),
        'faults': [],
        'max_steps': 5_000_000,
    }


def gen_deep_routing(rng: random.Random, tier: str) -> dict:
    """Routing-heavy class: many two-qudit gates on random pairs, sparse
    coupling graph, so that the mapping passes insert many swaps."""
    from dst.workload import compile_inputs as CI
    big = tier == 'thorough'
    n = rng.choice([4, 5, 5, 6]) if big else rng.choice([4, 5, 5])
    k = rng.randint(40, 70) if big else rng.randint(40, 60)
    gates = []
    for _ in range(k):
        a, b = rng.sample(range(n), 2)
        gates.append({'g': rng.choice(['cx', 'cx', 'cz']), 'q': [a, b]})
        if rng.random() < 0.5:
            gates.append({'g': 'u3', 'q': [a],
                          'p': [round(rng.uniform(0, 6), 6)
                                for _ in range(3)]})
    inp = {'kind': 'circuit', 'n': n, 'gates': gates}
    if rng.random() < 0.3:
        inp['measure'] = sorted(rng.sample(range(n), rng.randint(1, n)))
    model = {'n': n + (1 if rng.random() < 0.2 else 0), 'd': 2,
             'graph': rng.choice(['line', 'line', 'star']),
             'gateset': 'default'}
    opts = {'optimization_level': 1, 'max_synthesis_size': 3,
            'seed': rng.randrange(10 ** 6),
            'num_workers': rng.randint(1, 4)}
    scn = compile_scn(rng, inp, model, opts)
    scn['policy']['preempt_gap'] = 0
    return scn


def gen_level3_sparse(rng: random.Random, tier: str) -> dict:
    """Level 3 re-synthesises blocks *between* layout/routing and the final
    placement: four qudits on a sparse graph, where the layout pass usually
    returns a non-identity placement."""
    from dst.workload import compile_inputs as CI
    inp = CI.gen_circuit(rng, 4, rng.randint(6, 10), barriers=False)
    model = {'n': 4 + (1 if rng.random() < 0.2 else 0), 'd': 2,
             'graph': rng.choice(['line', 'star']), 'gateset': 'default'}
    opts = {'optimization_level': 3, 'max_synthesis_size': 3,
            'seed': rng.randrange(10 ** 6),
            'num_workers': rng.randint(2, 4)}
    scn = compile_scn(rng, inp, model, opts)
    scn['policy']['preempt_gap'] = 0
    return scn


def gen_level4_pam(rng: random.Random, tier: str) -> dict:
    """Level 4 maps with the permutation-aware algorithm (two routing
    rounds, blocks pre-synthesised under every input/output permutation):
    four or five qudits on a sparse graph.  Two variants: random circuits
    with extra SWAPs, so that the first routing round ends with a
    non-identity mapping; entangler-dense circuits, whose three-qudit
    blocks have real content, so that a non-trivial (possibly cyclic)
    block output permutation can save routing."""
    from dst.workload import compile_inputs as CI
    n = rng.choice([4, 4, 5])
    if rng.random() < 0.5:
        inp = CI.gen_circuit(rng, n, rng.randint(5, 8), p3=0.0,
                             barriers=False, blocks=False)
        for _ in range(rng.randint(0, 2)):
            inp['gates'].insert(rng.randrange(len(inp['gates']) + 1),
                                {'g': 'swap', 'q': rng.sample(range(n), 2)})
    else:
        gates = []
        for _ in range(rng.randint(6, 12)):
            if rng.random() < 0.65:
                gates.append({'g': rng.choice(['cx', 'cx', 'cz']),
                              'q': rng.sample(range(n), 2)})
            else:
                gates.append({'g': 'u3', 'q': [rng.randrange(n)],
                              'p': [round(rng.uniform(0, 6), 6)
                                    for _ in range(3)]})
        inp = {'kind': 'circuit', 'n': n, 'gates': gates}
        if rng.random() < 0.3:
            inp['measure'] = sorted(rng.sample(range(n),
                                               rng.randint(1, n)))
    model = {'n': n + (1 if rng.random() < 0.2 else 0), 'd': 2,
             'graph': rng.choice(['line', 'line', 'star', 'ring']),
             'gateset': 'default'}
    opts = {'optimization_level': 4, 'max_synthesis_size': 3,
            'seed': rng.randrange(10 ** 6),
            'num_workers': rng.randint(2, 4)}
    scn = compile_scn(rng, inp, model, opts)
    scn['policy']['preempt_gap'] = 0
    return scn


def gen_c01(rng: random.Random, tier: str) -> dict:
    from dst.workload import compile_inputs as CI
    big = tier == 'thorough'
    r0 = rng.random()
    if r0 < 0.12:
        return dict(gen_deep_routing(rng, tier), cls='deep-routing')
    if r0 < 0.18:
        return dict(gen_level3_sparse(rng, tier), cls='level3-sparse')
    if r0 < (0.40 if big else 0.28):
        return dict(gen_level4_pam(rng, tier), cls='level4-pam')
    n = rng.choice([1, 2, 2, 3, 3, 4] + ([5, 6] if big else []))
    depth = rng.randint(2, 10 if n <= 3 else 7)
    inp = CI.gen_circuit(rng, n, depth)
    model = CI.gen_model(rng, n)
    opts = gen_opts(rng, tier, n)
    if any(len(g['q']) >= 3 and g['g'] != 'barrier' for g in inp['gates']):
        # documented: compile() refuses gates wider than the block size
        opts['max_synthesis_size'] = 3
    return compile_scn(rng, inp, model, opts)


def gen_c02(rng: random.Random, tier: str) -> dict:
    from dst.workload import compile_inputs as CI
    r = rng.random()
    if r < 0.6:
        return gen_c01(rng, tier)
    inp = CI.gen_target(rng, ['unitary', 'unitary', 'state', 'system'],
                        qutrits=True)
    model = CI.gen_model(rng, inp['n'], inp['d'], max_extra=0)
    return compile_scn(rng, inp, model, gen_opts(rng, tier, inp['n']))


def gen_c03(rng: random.Random, tier: str) -> dict:
    from dst.workload import compile_inputs as CI
    if rng.random() < (0.12 if tier == 'thorough' else 0.06):
        # three-qudit targets, permutation-aware synthesis (level 4)
        inp = {'kind': 'unitary', 'n': 3, 'd': 2,
               'gen': rng.choice(['qperm', 'qperm', 'circ', 'perm'])
               if tier == 'thorough' else 'qperm',
               'seed': rng.randrange(10 ** 6)}
        model = {'n': 3, 'd': 2, 'gateset': 'default',
                 'graph': rng.choice(['all', 'line'])
                 if tier == 'thorough' else 'all'}
        opts = {'optimization_level': rng.choice([3, 4, 4]),
                'max_synthesis_size': 3, 'seed': rng.randrange(10 ** 6),
                'num_workers': rng.randint(1, 4)}
        scn = compile_scn(rng, inp, model, opts)
        scn['policy']['preempt_gap'] = 0
        return scn
    if rng.random() < 0.25:
        d = 2
        n = rng.randint(1, 2)
        items = []
        for k in range(rng.randint(2, 3)):
            it = CI.gen_target(rng, ['unitary'], qutrits=False, max_n=n)
            it['n'] = n
            it['gen'] = 'haar'      # pairwise distinguishable
            items.append(it)
        inp = {'kind': 'list', 'items': items, 'n': n, 'd': d}
        model = CI.gen_model(rng, n, d, max_extra=0)
    else:
        inp = CI.gen_target(rng, ['unitary', 'unitary', 'state', 'system'],
                            qutrits=True)
        model = CI.gen_model(rng, inp['n'], inp['d'], max_extra=0)
    return compile_scn(rng, inp, model, gen_opts(rng, tier, inp['n']))


GENS = {
    'C01': gen_c01,
    'C02': gen_c02,
    'C03': gen_c03,
    'C07': gen_c07,
    'C11': gen_c11,
    'C14': gen_c14,
    'C13': gen_c13,
    'C12': gen_c12,
    'C15': gen_c15,
}


def gen(prop: str, tier: str, seed: int) -> dict:
    scn = None
    if prop in SWEEP_PROPS:
        fam = seed >> 12
        frng = random.Random(repr(('family', prop, fam)))
        if frng.random() < P_SWEEP_FAMILY:
            scn = gen_c14_sweep(frng, tier, seed & 0xfff)
            scn['sweep']['family'] = fam
            scn['sched_seed'] = fam
    if scn is None:
        rng = random.Random(repr(('workload', prop, seed)))
        scn = GENS[prop](rng, tier)
    scn['seed'] = seed
    scn['prop'] = prop
    scn.setdefault('engine', 'simrt')
    return scn


def evaluate(prop: str, rr) -> list:
    import importlib
    mod = importlib.import_module(f'dst.oracles.{prop.lower()}')
    return mod.check(rr)
