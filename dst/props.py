"""Per-property scenario generators and evaluation entry points.

`gen(prop, tier, run_seed, index)` is a pure function of its arguments: one
integer decides the whole scenario (topology, workload, fault plan,
exploration strategy).
"""
from __future__ import annotations

import hashlib
import random

from dst import preempt
from dst.workload import tasktree


def run_seed(verif_seed: int, prop: str, tier: str, i: int) -> int:
    h = hashlib.sha256(f'{verif_seed}/{prop}/{tier}/{i}'.encode()).digest()
    return int.from_bytes(h[:6], 'big')


def worker_names(topo: dict) -> list[str]:
    if topo['kind'] == 'attached':
        return [f'w{i}' for i in range(topo['workers'])]
    d = len(topo['managers'])
    step = (2 ** 30) // d
    return [f'w{i * step + j}' for i, n in enumerate(topo['managers'])
            for j in range(n)]


def gen_topo(rng: random.Random, p_attached: float = 0.6,
             max_workers: int = 4, max_managers: int = 3) -> dict:
    if rng.random() < p_attached:
        return {'kind': 'attached', 'workers': rng.randint(1, max_workers)}
    m = rng.randint(1, max_managers)
    return {'kind': 'detached',
            'managers': [rng.randint(1, 3) for _ in range(m)]}


def swarm_policy(rng: random.Random, topo: dict, funcs: list[str],
                 p_preempt: float = 0.6, horizon: int = 1500) -> dict:
    r = rng.random()
    pol: dict = {}
    if r < 0.4:
        pol['kind'] = 'uniform'
    elif r < 0.7:
        pol['kind'] = 'sticky'
        pol['p_stick'] = rng.choice([0.5, 0.8, 0.95])
    else:
        pol['kind'] = 'pct'
        d = rng.randint(1, 3)
        pol['pct_changes'] = sorted(rng.randrange(20, horizon)
                                    for _ in range(d))
    pol['w_deliver'] = rng.choice([0.3, 1.0, 1.0, 3.0])
    if rng.random() < 0.25:
        ws = worker_names(topo)
        cands = [f'T:{w}/' for w in ws] + [f'>{w}' for w in ws]
        if topo['kind'] == 'detached':
            for i in range(len(topo['managers'])):
                cands += [f'T:m{i}/', f'>m{i}', f'D:m{i}>']
        cands += ['T:server/', 'D:server>']
        a = rng.randrange(20, horizon)
        pol['starve'] = {'match': rng.choice(cands), 'from': a,
                         'to': a + rng.randrange(30, 400)}
    if rng.random() < p_preempt:
        pol['preempt_gap'] = rng.choice([200, 50, 15])
        k = rng.randint(max(1, len(funcs) // 2), len(funcs))
        pol['preempt_funcs'] = sorted(rng.sample(funcs, k))
    else:
        pol['preempt_gap'] = 0
    return pol


# ------------------------------------------------------------------- C07
def gen_c07(rng: random.Random, tier: str) -> dict:
    topo = gen_topo(rng)
    big = tier == 'thorough'
    prog = tasktree.gen_program(
        rng,
        max_nodes=rng.choice([6, 12, 25, 40] + ([80, 120] if big else [])),
        max_depth=rng.randint(2, 4), max_fanout=rng.randint(2, 5),
        payloads=rng.random() < 0.25, id_base=0,
    )
    funcs = preempt.WORKER_FUNCS
    if rng.random() < 0.3:
        funcs = funcs + preempt.SCHED_FUNCS + preempt.SERVER_FUNCS
    return {
        'topo': topo,
        'clients': [{'script': [{'op': 'compile', 'prog': prog}]}],
        'policy': swarm_policy(rng, topo, funcs),
        'faults': [],
    }


GENS = {
    'C07': gen_c07,
}


def gen(prop: str, tier: str, seed: int) -> dict:
    rng = random.Random(repr(('workload', prop, seed)))
    scn = GENS[prop](rng, tier)
    scn['seed'] = seed
    scn['prop'] = prop
    scn.setdefault('engine', 'simrt')
    return scn


def evaluate(prop: str, rr) -> list:
    import importlib
    mod = importlib.import_module(f'dst.oracles.{prop.lower()}')
    return mod.check(rr)
