"""Batch runner: one simulated run = one forked child of a warmed-up,
single-threaded parent; N parents pull run indices from a shared counter.

The set of runs executed depends only on (VERIF_SEED, property, tier, run
count), never on the number of parents.
"""
from __future__ import annotations

import collections
import gc
import json
import multiprocessing as mp
import os
import pickle
import select
import signal
import sys
import time
import traceback

VERIF = os.path.dirname(os.path.dirname(os.path.abspath(__file__)))


def _warm() -> None:
    import threading
    import warnings
    warnings.filterwarnings('ignore', category=RuntimeWarning,
                            message='coroutine .* was never awaited')
    threading.stack_size(512 * 1024)
    import bqskit  # noqa
    import bqskit.compiler.compiler  # noqa
    import bqskit.runtime.attached  # noqa
    import bqskit.runtime.manager  # noqa
    import dill  # noqa

    from dst import simrt  # noqa
    from dst.workload import bodies  # noqa


def summarize(rr, prop: str) -> dict:
    from dst import topo as topo_mod
    sim = rr.sim
    submits = sum(1 for e in sim.events
                  if e[1] == 'RECV' and e[3][0] in ('SUBMIT', 'SUBMIT_BATCH')
                  and '>w' in e[2])
    return {
        'topo': topo_mod.describe(rr.scn['topo']),
        'steps': sim.steps,
        'simtime': sim.now if sim.now != float('inf') else -1.0,
        'digest': sim.digest(),
        'multi': sim.multi_choice_steps,
        'preempts': sim.preempts,
        'counters': dict(sim.counters),
        'nontrivial': submits >= 1 and sim.multi_choice_steps >= 1,
        'events': len(sim.events),
        'decisions': len(sim.decisions),
        'policy': (rr.scn.get('policy') or {}).get('kind'),
        'preempt_gap': (rr.scn.get('policy') or {}).get('preempt_gap', 0),
        'crashes': [{k: v for k, v in c.items() if k != 'spec'}
                    | {'trigger': c['spec']['trigger']}
                    for c in rr.crashes],
        'preempt_missing': rr.preempt_missing,
        'sweep': rr.scn.get('sweep'),
        'cls': rr.scn.get('cls'),
    }


def sample_descriptor(rr) -> dict:
    sim = rr.sim
    scn = dict(rr.scn)
    return {
        'seed': scn['seed'],
        'topology': scn['topo'],
        'policy': scn.get('policy'),
        'faults': scn.get('faults'),
        'clients': scn['clients'],
        'first_events': [list(map(_j, e)) for e in sim.events[:40]],
        'steps': sim.steps,
    }


def _j(x):
    if isinstance(x, (str, int, float, bool)) or x is None:
        return x
    if isinstance(x, (list, tuple)):
        return [_j(y) for y in x]
    return repr(x)


def run_child(prop: str, tier: str, seed: int, i: int,
              want_sample: bool = False) -> dict:
    """Executed inside the forked child."""
    from dst import engines
    from dst import props
    scn = props.gen(prop, tier, seed)
    rr = engines.execute(scn)
    res = {'i': i, 'seed': seed, 'status': rr.status,
           'status_msg': rr.status_msg, 'wall': rr.wall}
    if rr.sim is not None:
        res.update(summarize(rr, prop))
    vs = []
    if rr.status == 'ok':
        vs = props.evaluate(prop, rr)
    res['violations'] = vs
    res['info'] = getattr(rr, 'info', {})
    if vs:
        res['scenario'] = scn
        res['decisions'] = [list(d) for d in rr.sim.decisions]
        res['trace'] = [list(map(_j, e)) for e in rr.sim.events[-600:]]
    if want_sample and rr.sim is not None:
        res['sample'] = sample_descriptor(rr)
    return res


def fork_run(fn, args: tuple, timeout: float) -> dict:
    """Run fn(*args) in a forked child; return its (picklable) result."""
    r, w = os.pipe()
    pid = os.fork()
    if pid == 0:
        code = 0
        try:
            os.close(r)
            if os.environ.get('DST_DEBUG'):
                import faulthandler
                faulthandler.dump_traceback_later(max(1, timeout - 2),
                                                  exit=False)
            try:
                res = fn(*args)
            except BaseException as e:  # noqa
                res = {'status': 'harness-error',
                       'status_msg': ''.join(traceback.format_exception(
                           type(e), e, e.__traceback__))[-3000:],
                       'violations': []}
            data = pickle.dumps(res)
            with os.fdopen(w, 'wb') as f:
                f.write(data)
        except BaseException:  # noqa
            code = 3
        finally:
            os._exit(code)
    os.close(w)
    chunks = []
    deadline = time.time() + timeout
    timed_out = False
    while True:
        left = deadline - time.time()
        if left <= 0:
            timed_out = True
            break
        rl, _, _ = select.select([r], [], [], min(left, 5.0))
        if rl:
            b = os.read(r, 1 << 20)
            if not b:
                break
            chunks.append(b)
    os.close(r)
    if timed_out:
        try:
            os.kill(pid, signal.SIGKILL)
        except ProcessLookupError:
            pass
    os.waitpid(pid, 0)
    if timed_out:
        return {'status': 'wall-timeout', 'status_msg': f'>{timeout}s',
                'violations': []}
    try:
        return pickle.loads(b''.join(chunks))
    except Exception as e:
        return {'status': 'harness-error',
                'status_msg': f'child returned no result: {e!r}',
                'violations': []}


# Real compile() runs are not independent of what the interpreter executed
# before (found by the determinism self-test: the same QuickPartitioner
# input gave different blocks after nine other compilations in the same
# process), and they take seconds anyway: each gets a fresh fork of the
# warmed-up worker, so that a run depends on its seed only.
FORK_PER_RUN = ('C01', 'C02', 'C03')
FORK_TIMEOUT = {'quick': 75, 'thorough': 600}


def reset_process_state() -> None:
    """Reset interpreter-global state that would otherwise make a run
    depend on the runs executed before it in the same process."""
    from bqskit.runtime.task import RuntimeTask
    RuntimeTask.task_counter = 0
    gc.collect()


def _worker_loop(k: int, prop: str, tier: str, verif_seed: int,
                 conn, n_samples: int) -> None:
    """One pinned, warmed-up process executing runs back to back.  State
    that could leak between runs is reset (reset_process_state); the
    determinism self-test compares digests with fresh-interpreter runs.
    Work is handed out by the batch driver over the pipe (no cross-process
    lock: a worker killed on timeout must not be able to block the rest)."""
    from dst import props
    try:
        try:
            cpus = sorted(os.sched_getaffinity(0))
            os.sched_setaffinity(0, {cpus[k % len(cpus)]})
        except (AttributeError, OSError):
            pass
        while True:
            conn.send_bytes(pickle.dumps(('ready', -1, None)))
            i = pickle.loads(conn.recv_bytes())
            if i is None:
                break
            seed = props.run_seed(verif_seed, prop, tier, i)
            reset_process_state()
            try:
                if prop in FORK_PER_RUN:
                    res = fork_run(run_child,
                                   (prop, tier, seed, i, i < n_samples),
                                   FORK_TIMEOUT[tier])
                    res.setdefault('i', i)
                    res.setdefault('seed', seed)
                else:
                    res = run_child(prop, tier, seed, i, i < n_samples)
            except BaseException as e:  # noqa
                res = {'i': i, 'seed': seed, 'status': 'harness-error',
                       'status_msg': ''.join(traceback.format_exception(
                           type(e), e, e.__traceback__))[-3000:],
                       'violations': []}
            conn.send_bytes(pickle.dumps(('done', i, res)))
    except BaseException as e:  # noqa
        try:
            conn.send_bytes(pickle.dumps(('error', -1, repr(e))))
        except Exception:
            pass
    finally:
        try:
            conn.send_bytes(pickle.dumps(('exit', -1, None)))
            conn.close()
        finally:
            os._exit(0)


def run_batch(prop: str, tier: str, verif_seed: int, n_runs: int,
              procs: int, wall_budget: float, run_timeout: float = 120.0,
              n_samples: int = 3, progress: bool = True) -> list[dict]:
    from multiprocessing.connection import wait

    from dst import props
    _warm()
    gc.collect()
    gc.freeze()
    ctx = mp.get_context('fork')
    deadline = time.time() + wall_budget
    workers: dict = {}   # conn -> dict(proc, k, cur, since)
    state = {'next': 0}

    def spawn(k: int) -> None:
        a, b = ctx.Pipe(duplex=True)
        p = ctx.Process(target=_worker_loop, args=(
            k, prop, tier, verif_seed, b, n_samples))
        p.start()
        b.close()
        workers[a] = {'proc': p, 'k': k, 'cur': None, 'since': time.time()}

    for k in range(procs):
        spawn(k)
    results = []
    t0 = time.time()
    last = t0
    while workers:
        ready = wait(list(workers.keys()), timeout=2.0)
        now = time.time()
        for c in ready:
            w = workers[c]
            try:
                kind, i, payload = pickle.loads(c.recv_bytes())
            except (EOFError, OSError):
                kind, i, payload = 'exit', -1, None
                if w['cur'] is not None:
                    ci, cs = w['cur']
                    results.append({'i': ci, 'seed': cs,
                                    'status': 'harness-error',
                                    'status_msg': 'worker process died',
                                    'violations': []})
                    w['cur'] = None
            if kind == 'ready':
                i = state['next']
                if i >= n_runs or now > deadline:
                    try:
                        c.send_bytes(pickle.dumps(None))
                    except OSError:
                        pass
                else:
                    state['next'] += 1
                    w['cur'] = (i, props.run_seed(verif_seed, prop, tier, i))
                    w['since'] = now
                    try:
                        c.send_bytes(pickle.dumps(i))
                    except OSError:
                        pass
            elif kind == 'done':
                w['cur'] = None
                w['since'] = now
                results.append(payload)
            elif kind == 'error':
                results.append({'status': 'parent-error', 'violations': [],
                                'status_msg': payload})
            elif kind == 'exit':
                c.close()
                w['proc'].join()
                del workers[c]
        for c, w in list(workers.items()):
            if w['cur'] is not None and now - w['since'] > run_timeout:
                ci, cs = w['cur']
                try:
                    w['proc'].kill()
                except Exception:
                    pass
                w['proc'].join()
                c.close()
                del workers[c]
                results.append({'i': ci, 'seed': cs, 'status': 'wall-timeout',
                                'status_msg': f'>{run_timeout}s',
                                'violations': []})
                spawn(w['k'])
        if progress and now - last > 30:
            last = now
            nv = sum(1 for r in results if r.get('violations'))
            print(f'  .. {len(results)}/{n_runs} runs, {nv} with violations,'
                  f' {now - t0:.0f}s', file=sys.stderr, flush=True)
    results.sort(key=lambda r: r.get('i', 0))
    return results
