"""Rebind the OS-facing names of the BQSKit runtime modules to simulator
seams.  No source hooks: every name below is a module-level import in the
runtime, resolved at call time.

If a name that is to be rebound does not exist (a refactor moved it) this
raises HarnessError: the check reports HARNESS-ERROR (exit 2), never a
verdict.
"""
from __future__ import annotations

import logging
import os
import random
import selectors
import signal as real_signal
import socket
import subprocess
import time
import types
import uuid

from dst import seams
from dst.sched import HarnessError
from dst.sched import Sim
from dst.sched import SimKilled


class Shim(types.ModuleType):
    """Module proxy overriding some attributes."""

    def __init__(self, real, **over) -> None:
        super().__init__(real.__name__)
        self.__dict__['_real'] = real
        self.__dict__['_over'] = over

    def __getattr__(self, k):
        o = self.__dict__['_over']
        if k in o:
            return o[k]
        return getattr(self.__dict__['_real'], k)


def _rebind(mod, **names) -> None:
    for k, v in names.items():
        if not hasattr(mod, k):
            raise HarnessError(
                f'seam name {mod.__name__}.{k} no longer exists')
        setattr(mod, k, v)


REAL_STUB_REPORT = {
    'real': [
        'bqskit.runtime.worker.Worker (all methods, both threads)',
        'bqskit.runtime.worker.WorkerMailbox',
        'bqskit.runtime.task.RuntimeTask (incl. dill of fnargs)',
        'bqskit.runtime.future.RuntimeFuture',
        'bqskit.runtime.base.ServerBase / RuntimeEmployee',
        'bqskit.runtime.detached.DetachedServer',
        'bqskit.runtime.attached.AttachedServer / start_attached_server',
        'bqskit.runtime.manager.Manager',
        'bqskit.compiler.compiler.Compiler (client protocol, close, launch '
        'string)',
        'bqskit.compiler.task.CompilationTask, Workflow, passes used by the '
        'workload',
        'pickle/dill of every message (ForkingPickler, as the real '
        'Connection)',
    ],
    'stub': [
        'multiprocessing.connection Connection/Listener/Client',
        'selectors.DefaultSelector (bookkeeping is the real '
        '_BaseSelectorImpl)',
        'socket.socketpair / socket.socket (wake-up sockets)',
        'threading.Thread/Lock, queue.Queue',
        'multiprocessing.Process, subprocess.Popen',
        'signal.signal, os.kill/getpid, time.sleep/time',
        'uuid.uuid4 (counter), random in runtime.base (seeded)',
        'worker.start_worker bootstrap (equivalent, without process-global '
        'logging/CPU/BLAS side effects)',
    ],
}


def install(sim: Sim, assign_seed: int):
    import bqskit.compiler.compiler as ccomp
    import bqskit.compiler.task as ctask
    import bqskit.runtime.attached as attached
    import bqskit.runtime.base as base
    import bqskit.runtime.detached as detached
    import bqskit.runtime.manager as manager
    import bqskit.runtime.worker as worker

    def Queue(maxsize=0):
        return seams.SimQueue(sim, maxsize)

    def Lock():
        return seams.SimLock(sim)

    def RLock():
        return seams.SimRLock(sim)

    def Thread(*a, **k):
        return seams.SimThreadFacade(sim, *a, **k)

    def namer(parent, target, args, kwargs):
        if getattr(target, '__name__', '') in ('start_worker',
                                               'sim_start_worker'):
            w_id = args[0]
            return (f'w{w_id}', 'worker')
        n = sum(1 for x in sim.nodes.values() if x.kind == 'proc')
        return (f'proc{n}', 'proc')

    def Process(*a, **k):
        return seams.SimProcess(sim, namer, *a, **k)

    def Listener(address, family=None, backlog=1, authkey=None):
        return seams.SimListener(sim, address, family, backlog, authkey)

    Client = seams.make_client(sim)

    def Popen(argv, creationflags=0, **kw):
        return seams.SimPopen(sim, argv, creationflags, **kw)

    # ---- os / signal / time
    def sim_kill(pid, sig):
        node = sim.cur_node()
        sim.kill(node, -int(sig), how='self-kill')
        raise SimKilled()

    def sim_getpid():
        return 30000 + sim.cur_node().index

    os_shim = Shim(os, kill=sim_kill, getpid=sim_getpid)

    def sim_signal(signum, handler):
        t = sim.cur_or_none()
        if t is None:
            return real_signal.SIG_DFL
        node = t.node
        old = node.handlers.get(int(signum), 'default')
        if handler == real_signal.SIG_IGN:
            node.handlers[int(signum)] = 'ignore'
        elif handler == real_signal.SIG_DFL:
            node.handlers[int(signum)] = 'default'
        else:
            node.handlers[int(signum)] = handler
        if old == 'ignore':
            return real_signal.SIG_IGN
        if old == 'default':
            return real_signal.SIG_DFL
        return old

    signal_shim = Shim(real_signal, signal=sim_signal)
    time_shim = Shim(time, sleep=sim.sleep, time=lambda: sim.now,
                     monotonic=lambda: sim.now)

    def socketpair(*a, **k):
        node = sim.cur_node()
        x, y = seams.SimSocket(sim, node), seams.SimSocket(sim, node)
        x.peer, y.peer = y, x
        return x, y

    def raw_socket(*a, **k):
        return seams.RawSocket(sim, *a, **k)

    socket_shim = Shim(socket, socketpair=socketpair, socket=raw_socket)
    selectors_shim = Shim(
        selectors, DefaultSelector=lambda: seams.SimSelector(sim))

    # ---- logging: route the record factory per node
    base_factory = logging.getLogRecordFactory()
    if getattr(base_factory, '_dst_routed', False):
        base_factory = base_factory._dst_base

    def routed_factory(*a, **k):
        t = sim.cur_or_none()
        if t is not None and t.node.record_factory is not None \
                and not t.node.dead:
            return t.node.record_factory(*a, **k)
        return base_factory(*a, **k)

    routed_factory._dst_routed = True
    routed_factory._dst_base = base_factory
    logging.setLogRecordFactory(routed_factory)

    def set_factory(f):
        sim.cur_node().record_factory = f

    def get_factory():
        return base_factory

    worker_logging = Shim(logging, setLogRecordFactory=set_factory,
                          getLogRecordFactory=get_factory)

    # the attached server configures the root logger with a StreamHandler:
    # a process-global side effect that is meaningless with all nodes in
    # one interpreter; give it a scratch logger instead.
    scratch_root = logging.Logger('dst-scratch-root')

    def attached_get_logger(name=None):
        if name is None:
            return scratch_root
        return logging.getLogger(name)

    attached_logging = Shim(logging, getLogger=attached_get_logger)

    # ---- worker bootstrap
    def get_worker():
        t = sim.cur_or_none()
        w = None if t is None else t.node.worker
        if w is None:
            raise RuntimeError('Worker has not been started.')
        return w

    def sim_start_worker(w_id, port, cpu=None, logging_level=30,
                         num_blas_threads=1, log_client=False):
        if w_id is not None:
            sim_signal(real_signal.SIGINT, real_signal.SIG_IGN)
        conn = None
        wait = .1
        for _ in range(7):
            try:
                conn = Client(('localhost', port), None)
            except (ConnectionRefusedError, TimeoutError):
                sim.sleep(wait)
                wait *= 2
            else:
                break
        if conn is None:
            raise RuntimeError('Unable to establish connection with manager.')
        if w_id is None:
            msg, w_id = conn.recv()
        node = sim.cur_node()
        w = worker.Worker(w_id, conn)
        node.worker = w
        w._loop()

    _rebind(
        worker, Queue=Queue, Lock=Lock, Thread=Thread, Process=Process,
        Client=Client, os=os_shim, signal=signal_shim, time=time_shim,
        logging=worker_logging, get_worker=get_worker,
        start_worker=sim_start_worker,
    )
    if hasattr(worker, 'RLock'):
        worker.RLock = RLock
    _rebind(
        base, Queue=Queue, Thread=Thread, Process=Process,
        Listener=Listener, Client=Client, signal=signal_shim,
        time=time_shim, socket=socket_shim, selectors=selectors_shim,
        start_worker=sim_start_worker,
        set_blas_thread_counts=lambda i=1: None,
    )
    base.random = random.Random(assign_seed)
    if hasattr(base, 'Lock'):
        base.Lock = Lock
    if hasattr(base, 'RLock'):
        base.RLock = RLock
    _rebind(
        detached, Listener=Listener, Thread=Thread,
        selectors=selectors_shim, socket=socket_shim, time=time_shim,
    )
    _rebind(manager, selectors=selectors_shim, time=time_shim)
    _rebind(attached, selectors=selectors_shim, logging=attached_logging)
    _rebind(ccomp, Client=Client, signal=signal_shim, time=time_shim,
            Popen=Popen)

    import dst
    if not dst.gate_hash_is_stable():
        import bqskit.ir.gate as _g
        if _g.Gate.__dict__.get('__hash__') is None:
            raise HarnessError(
                'bqskit was imported before dst: the stable gate hash seam '
                'is not installed')

    ctr = [0]

    def uuid4():
        ctr[0] += 1
        return uuid.UUID(int=ctr[0])

    _rebind(ctask, uuid=Shim(uuid, uuid4=uuid4))

    # `from bqskit.runtime.worker import get_worker` inside future._done
    # and bqskit.runtime.get_runtime resolve worker.get_worker at call time.
    return types.SimpleNamespace(
        Client=Client, Listener=Listener, Process=Process, Popen=Popen,
        sim_start_worker=sim_start_worker, signal=signal_shim,
        time=time_shim,
    )
