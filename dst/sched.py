"""Deterministic scheduler: baton-passed real threads, one decision stream.

Everything nondeterministic in a simulated run is decided by `Sim.decide`:
which enabled thread runs next, which in-flight message is delivered next,
how many source lines until the next pre-emption, what a peer observes after
a crash.  In explore mode the decisions come from one seeded PRNG and are
recorded; in replay mode they are read back from the recording.

Logging (`Sim.log`) never draws from a PRNG and never reads a real clock.
"""
from __future__ import annotations

import hashlib
import math
import random
import sys
import threading
import traceback


class SimKilled(BaseException):
    """Raised inside threads of a dead node so that they unwind."""


class ReplayDiverged(Exception):
    pass


class StepCap(Exception):
    pass


class HarnessError(Exception):
    pass


class Node:
    """A simulated OS process."""

    def __init__(self, sim: 'Sim', name: str, kind: str) -> None:
        self.sim = sim
        self.name = name
        self.kind = kind
        self.index = len(sim.nodes)
        self.dead = False
        self.exit_code: int | None = None
        self.exit_how = ''
        self.threads: list[SThread] = []
        self.handlers: dict[int, object] = {}
        self.sig_pending: list[int] = []
        self.worker = None          # per-process "global" worker object
        self.record_factory = None  # per-process log record factory
        self.parent: Node | None = None
        self.children: list[Node] = []
        self.daemon = False
        self.endpoints: list = []
        self.listeners: list = []
        self.selectors: list = []
        self.scratch: dict = {}

    @property
    def main(self) -> 'SThread | None':
        return self.threads[0] if self.threads else None

    def alive(self) -> bool:
        return not self.dead

    def __repr__(self) -> str:
        return f'<node {self.name}{" dead" if self.dead else ""}>'


class SThread:
    def __init__(self, sim, node, target, args, kwargs, name, daemon):
        self.sim = sim
        self.node = node
        self.target = target
        self.args = args
        self.kwargs = kwargs or {}
        self.name = name
        self.daemon = daemon
        self.index = len(sim.threads)
        self.go = threading.Semaphore(0)
        self.state = 'ready'  # ready, running, blocked, done
        self.pred = None
        self.why = ''
        self.wake_at: float | None = None
        self.exc: BaseException | None = None
        self.exc_tb = ''
        self.in_prim = 0
        self.real = threading.Thread(target=self._boot, daemon=True,
                                     name=f'sim:{name}')

    def _boot(self):
        self.go.acquire()
        sim = self.sim
        sim._tls.thread = self
        try:
            if self.node.dead:
                raise SimKilled()
            sim._run_signals(self)
            self.target(*self.args, **self.kwargs)
        except SimKilled:
            pass
        except SystemExit:
            pass
        except BaseException as e:  # noqa
            self.exc = e
            self.exc_tb = traceback.format_exc()
            if not self.node.dead:
                sim.log('THREAD-EXC', self.name, type(e).__name__,
                        _site(e))
        finally:
            self.state = 'done'
            try:
                sim._on_thread_done(self)
            except BaseException as e:  # noqa
                sim.internal_errors.append('on_thread_done: ' + repr(e))
            finally:
                sim._back.release()


def _site(e: BaseException) -> str:
    """Innermost bqskit function in the traceback (function name only)."""
    tb = e.__traceback__
    site = '?'
    while tb is not None:
        fn = tb.tb_frame.f_code.co_filename
        if '/bqskit/' in fn:
            site = tb.tb_frame.f_code.co_name
        tb = tb.tb_next
    return site


class Policy:
    """Exploration strategy for one run (drawn before the run starts)."""

    def __init__(self, d: dict) -> None:
        self.kind = d.get('kind', 'uniform')
        self.p_stick = d.get('p_stick', 0.0)
        self.w_deliver = d.get('w_deliver', 1.0)
        self.pct_changes = list(d.get('pct_changes', []))
        self.starve = d.get('starve')  # {'match': str, 'from': a, 'to': b}
        self.preempt_gap = d.get('preempt_gap', 0)  # mean lines; 0 = off
        self.preempt_funcs = d.get('preempt_funcs')  # None = all eligible
        self.timers = d.get('timers', 'idle')  # idle | anytime
        self.d = d


class Sim:
    def __init__(self, seed: int, policy: dict | None = None,
                 decisions: list | None = None, max_steps: int = 200_000,
                 lenient: bool = False) -> None:
        self.seed = seed
        self.srng = random.Random(('schedule', seed).__repr__())
        self.policy = Policy(policy or {})
        self.replaying = decisions is not None
        self.lenient = lenient
        self._replay = list(decisions or [])
        self._rp = 0
        self.decisions: list = []
        self.threads: list[SThread] = []
        self.nodes: dict[str, Node] = {}
        self._tls = threading.local()
        self._back = threading.Semaphore(0)
        self.now = 0.0
        self.steps = 0
        self.seq = 0
        self.max_steps = max_steps
        self.events: list[tuple] = []
        self.hash = hashlib.sha256()
        self.endpoints: list = []
        self.listeners: dict = {}
        self.verbose = False
        self.internal_errors: list[str] = []
        self.quiescence_hooks: list = []
        self.step_hooks: list = []
        self.event_watchers: list = []
        self.pending_actions: list = []
        self.barriers: dict[str, bool] = {}
        self.counters: dict[str, int] = {}
        self.last_run = None
        self._prio: dict = {}
        self._prio_low = 0.0
        self.preempt_left = 0
        self.preempts = 0
        self.preempt_enabled = False
        self.multi_choice_steps = 0
        self.time_jumps = 0
        self.finished = False
        self.timers_armed = False   # early timers only after start-up

    # ------------------------------------------------------------ logging
    def log(self, *a) -> None:
        self.seq += 1
        ev = (self.seq,) + tuple(a)
        self.hash.update(repr(a).encode())
        self.events.append(ev)
        if self.verbose:
            print(f'[{self.steps}/{self.seq}]', *a, file=sys.stderr)
        for w in self.event_watchers:
            w(ev)

    def count(self, key: str, n: int = 1) -> None:
        self.counters[key] = self.counters.get(key, 0) + n

    def digest(self) -> str:
        return self.hash.hexdigest()

    # ---------------------------------------------------------- decisions
    def decide(self, n: int, kind: str, explore=None) -> int:
        """Return a choice in range(n).  `explore` optionally computes the
        choice in explore mode (policy); default uniform."""
        if n <= 1:
            return 0
        if self.replaying:
            c = self._next_decision(kind, n)
        else:
            c = explore() if explore is not None else self.srng.randrange(n)
        self.decisions.append((kind, n, c))
        return c

    def decide_value(self, kind: str, draw) -> int:
        """A decision whose domain is unbounded (pre-emption gap)."""
        if self.replaying:
            c = self._next_decision(kind, 0)
        else:
            c = draw()
        self.decisions.append((kind, 0, c))
        return c

    def _next_decision(self, kind: str, n: int) -> int:
        if self._rp >= len(self._replay):
            if self.lenient:
                return 0 if n else 10 ** 9
            raise ReplayDiverged(f'ran out of decisions at {kind}/{n}')
        k, m, c = self._replay[self._rp]
        self._rp += 1
        if k != kind or (n and (m != n or not 0 <= c < n)):
            if self.lenient:
                return c % n if n else c
            raise ReplayDiverged(
                f'decision {self._rp - 1}: recorded {k}/{m}, now {kind}/{n}')
        return c

    # ------------------------------------------------------- thread mgmt
    def cur(self) -> SThread:
        return self._tls.thread

    def cur_or_none(self) -> SThread | None:
        return getattr(self._tls, 'thread', None)

    def cur_node(self) -> Node:
        return self._tls.thread.node

    def node(self, name: str, kind: str = 'other') -> Node:
        if name not in self.nodes:
            self.nodes[name] = Node(self, name, kind)
        return self.nodes[name]

    def spawn(self, node: Node, target, args=(), kwargs=None, name='',
              daemon=False) -> SThread:
        t = SThread(self, node, target, args, kwargs,
                    name or f'{node.name}/t{len(node.threads)}', daemon)
        node.threads.append(t)
        self.threads.append(t)
        t.real.start()
        return t

    def _switch_out(self) -> None:
        t = self.cur()
        self._back.release()
        t.go.acquire()
        if t.node.dead:
            raise SimKilled()
        self._run_signals(t)

    def _run_signals(self, t: SThread) -> None:
        node = t.node
        if node.sig_pending and node.main is t and not t.in_prim_signal():
            while node.sig_pending:
                signum = node.sig_pending.pop(0)
                h = node.handlers.get(signum, 'default')
                self.log('SIGNAL-RUN', node.name, signum)
                if h == 'ignore':
                    continue
                if h == 'default':
                    if signum == 2:
                        raise KeyboardInterrupt()
                    self.kill(node, -signum, how='signal')
                    raise SimKilled()
                t._in_signal = True
                try:
                    h(signum, None)
                finally:
                    t._in_signal = False

    def check_alive(self) -> None:
        if self.cur().node.dead:
            raise SimKilled()

    def yield_(self, why: str = '') -> None:
        t = self.cur()
        if t.node.dead:
            raise SimKilled()
        t.state = 'ready'
        t.why = why
        self._switch_out()

    def block(self, pred, why: str = '', deadline: float | None = None):
        """Park until pred() holds (checked while holding the baton)."""
        t = self.cur()
        if t.node.dead:
            raise SimKilled()
        while True:
            t.state = 'blocked'
            t.pred = pred
            t.why = why
            t.wake_at = deadline
            self._switch_out()
            t.pred = None
            t.wake_at = None
            if pred():
                return True
            if deadline is not None and self.now >= deadline:
                return False
            # woken for a signal handler or spuriously: re-block

    def sleep(self, d: float) -> None:
        t_end = self.now + max(0.0, float(d))
        self.block(lambda: self.now >= t_end, f'sleep {d}', deadline=t_end)

    def barrier(self, name: str) -> None:
        self.barriers.setdefault(name, False)
        self.block(lambda: self.barriers[name], f'barrier {name}')

    def release(self, name: str) -> None:
        self.barriers[name] = True

    # ----------------------------------------------------- process model
    def kill(self, node: Node, code: int = -9, how: str = 'kill') -> None:
        """Mark the node dead and decide what its peers will observe."""
        if node.dead:
            return
        node.dead = True
        node.exit_code = code
        node.exit_how = how
        self.log('NODE-END', node.name, how, code)
        from dst import seams
        seams.on_node_death(self, node, graceful=(how == 'exit'))
        if how == 'exit':
            # multiprocessing's atexit hook terminates daemonic children
            for ch in node.children:
                if ch.daemon and not ch.dead:
                    self.kill(ch, -15, how='sigterm-by-parent')

    def _on_thread_done(self, t: SThread) -> None:
        node = t.node
        if node.dead:
            return
        if node.main is t:
            # interpreter shutdown: wait for non-daemon threads first
            others = [x for x in node.threads
                      if x is not t and not x.daemon and x.state != 'done']
            if others:
                node.scratch['main_done'] = True
                return
            self.kill(node, 0 if t.exc is None else 1, how='exit')
        elif node.scratch.get('main_done'):
            others = [x for x in node.threads
                      if not x.daemon and x.state != 'done']
            if not others:
                m = node.main
                self.kill(node, 0 if m.exc is None else 1, how='exit')

    def signal_node(self, node: Node, signum: int) -> None:
        if node.dead:
            return
        self.log('SIGNAL', node.name, signum)
        node.sig_pending.append(signum)

    # ---------------------------------------------------- controller loop
    def _enabled(self) -> list:
        ch = []
        for t in self.threads:
            if t.state == 'done' or t.node.dead:
                continue
            if t.state == 'ready':
                ch.append(('t', t))
            elif t.state == 'blocked':
                if t.pred() or (t.wake_at is not None
                                and self.now >= t.wake_at):
                    ch.append(('t', t))
                elif t.node.sig_pending and t.node.main is t:
                    ch.append(('t', t))
        for e in self.endpoints:
            if e.inflight and not e.frozen:
                ch.append(('d', e))
        if self.policy.timers == 'anytime' and ch and self.timers_armed:
            # early timer: a short sleep may end although other processes
            # are still busy (a slow peer, a loaded machine); the clock
            # then jumps forward to its wake-up time
            for t in self.threads:
                if t.state == 'blocked' and t.wake_at is not None \
                        and not t.node.dead and t.wake_at > self.now \
                        and t.wake_at - self.now <= 1.0 \
                        and t.why.startswith('sleep'):
                    ch.append(('w', t))
        return ch

    def _reap(self) -> None:
        """Let threads of dead nodes unwind (no decisions involved)."""
        progressed = True
        while progressed:
            progressed = False
            for t in self.threads:
                if t.state != 'done' and t.node.dead:
                    t.state = 'running'
                    t.go.release()
                    self._back.acquire()
                    progressed = True

    def _resume(self, t: SThread) -> None:
        t.state = 'running'
        self.last_run = ('t', t.index)
        t.go.release()
        self._back.acquire()

    def _key(self, c) -> tuple:
        return (c[0], c[1].index)

    def _pick(self, choices: list) -> int:
        n = len(choices)
        pol = self.policy
        r = self.srng

        def weighted() -> int:
            if pol.w_deliver == 1.0 and all(k != 'w' for k, _ in choices):
                return r.randrange(n)
            ws = [pol.w_deliver if k == 'd' else (0.05 if k == 'w' else 1.0)
                  for k, _ in choices]
            x = r.random() * sum(ws)
            for i, w in enumerate(ws):
                x -= w
                if x < 0:
                    return i
            return n - 1

        def explore() -> int:
            cand = list(range(n))
            st = pol.starve
            if st is not None and st['from'] <= self.steps < st['to']:
                keep = [i for i in cand
                        if st['match'] not in _label(choices[i])]
                if keep:
                    i = keep[r.randrange(len(keep))]
                    return i
            if pol.kind == 'sticky':
                if self.last_run is not None and r.random() < pol.p_stick:
                    for i, c in enumerate(choices):
                        if self._key(c) == self.last_run:
                            return i
                return weighted()
            if pol.kind == 'pct':
                best, bi = None, 0
                for i, c in enumerate(choices):
                    k = self._key(c)
                    if k not in self._prio:
                        self._prio[k] = r.random()
                    p = self._prio[k]
                    if best is None or p > best:
                        best, bi = p, i
                if pol.pct_changes and self.steps >= pol.pct_changes[0]:
                    pol.pct_changes.pop(0)
                    self._prio_low -= 1.0
                    self._prio[self._key(choices[bi])] = self._prio_low
                return bi
            return weighted()

        return self.decide(n, 'run', explore)

    def run(self) -> str:
        """Run to final quiescence.  Returns 'quiescent'."""
        try:
            return self._run()
        finally:
            self.finished = True

    def _run(self) -> str:
        while True:
            self._reap()
            if self.pending_actions:
                acts, self.pending_actions = self.pending_actions, []
                for a in acts:
                    a()
                continue
            for h in self.step_hooks:
                h(self)
            if self.pending_actions:
                continue
            choices = self._enabled()
            if not choices:
                sleepers = [t.wake_at for t in self.threads
                            if t.state == 'blocked' and t.wake_at is not None
                            and not t.node.dead]
                if sleepers:
                    self.now = min(sleepers)
                    self.time_jumps += 1
                    self.log('TIME', round(self.now, 6))
                    continue
                again = False
                for h in list(self.quiescence_hooks):
                    if h(self):
                        again = True
                        break
                if again:
                    continue
                return 'quiescent'
            self.steps += 1
            if self.steps > self.max_steps:
                raise StepCap(f'step cap {self.max_steps} reached')
            if len(choices) > 1:
                self.multi_choice_steps += 1
            i = self._pick(choices)
            kind, x = choices[i]
            if kind == 'd':
                self.last_run = ('d', x.index)
                x.deliver_one()
            elif kind == 'w':
                self.now = max(self.now, x.wake_at)
                self.count('fault.early_timer')
                self.log('TIME-EARLY', x.name, round(self.now, 6))
                self._resume(x)
            else:
                self._resume(x)

    # ---------------------------------------------------------- reporting
    def blocked_report(self) -> list:
        return [(t.name, t.state, t.why) for t in self.threads
                if t.state != 'done' and not t.node.dead]

    def thread_failures(self) -> list:
        out = []
        for t in self.threads:
            if t.exc is not None and not isinstance(t.exc, SimKilled):
                out.append((t.name, type(t.exc).__name__, _site(t.exc),
                            str(t.exc)[:300], t.exc_tb[-1500:]))
        return out

    # ------------------------------------------------------- pre-emption
    def draw_gap(self) -> int:
        g = self.policy.preempt_gap
        if g <= 0:
            return 10 ** 9

        def draw() -> int:
            u = self.srng.random()
            p = 1.0 / g
            return int(math.log(1.0 - u) / math.log(1.0 - p)) + 1
        return self.decide_value('preempt', draw)


def _label(choice) -> str:
    kind, x = choice
    if kind in ('t', 'w'):
        return ('T:' if kind == 't' else 'W:') + x.name
    return 'D:' + x.label


def _in_prim_signal(self) -> bool:
    return getattr(self, '_in_signal', False)


SThread.in_prim_signal = _in_prim_signal
