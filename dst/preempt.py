"""Source-line pre-emption points via sys.monitoring (Python 3.12).

LINE events are enabled only on the code objects of the runtime functions
listed by the caller; everywhere else there is no overhead.  A pre-emption
is a plain `yield_` of the running simulated thread, so the only thing it
adds is a switch point *between two source lines* of runtime code -- a
subset of what the GIL permits.
"""
from __future__ import annotations

import sys

TOOL = 3
_installed = {'sim': None, 'codes': []}


def _resolve(specs: list[str]) -> list:
    """'module:Class.func' or 'module:func' -> code objects."""
    import importlib
    out = []
    missing = []
    for s in specs:
        modname, _, qual = s.partition(':')
        try:
            obj = importlib.import_module(modname)
            for part in qual.split('.'):
                obj = getattr(obj, part)
            if isinstance(obj, property):
                obj = obj.fget
            obj = getattr(obj, '__func__', obj)
            obj = getattr(obj, '__wrapped__', obj)
            out.append((s, obj.__code__))
        except (ImportError, AttributeError):
            missing.append(s)
    return out, missing


def install(sim, specs: list[str]) -> list[str]:
    """Enable line pre-emption in `specs` for `sim`.  Returns the specs
    that could not be resolved (reported, never fatal on its own)."""
    mon = sys.monitoring
    codes, missing = _resolve(specs)
    if mon.get_tool(TOOL) is None:
        mon.use_tool_id(TOOL, 'dst')
    _installed['sim'] = sim
    sim.preempt_left = sim.draw_gap()
    sim.preempt_enabled = True

    def on_line(code, line):
        t = sim.cur_or_none()
        if t is None or t.node.dead or sim.finished:
            return None
        if getattr(t, '_in_signal', False):
            return None
        sim.preempt_left -= 1
        if sim.preempt_left <= 0:
            sim.preempt_left = sim.draw_gap()
            sim.preempts += 1
            sim.log('PREEMPT', t.name, code.co_name, line)
            sim.count('preempt.' + code.co_name)
            sim.yield_('preempt')
        return None

    mon.register_callback(TOOL, mon.events.LINE, on_line)
    for _, code in codes:
        mon.set_local_events(TOOL, code, mon.events.LINE)
    _installed['codes'] = [c for _, c in codes]
    return missing


def uninstall() -> None:
    mon = sys.monitoring
    for code in _installed['codes']:
        try:
            mon.set_local_events(TOOL, code, 0)
        except Exception:
            pass
    _installed['codes'] = []
    try:
        mon.register_callback(TOOL, mon.events.LINE, None)
    except Exception:
        pass


WORKER_FUNCS = [
    'bqskit.runtime.worker:Worker._handle_result',
    'bqskit.runtime.worker:Worker._process_await',
    'bqskit.runtime.worker:Worker._get_desired_result',
    'bqskit.runtime.worker:Worker._get_next_ready_task',
    'bqskit.runtime.worker:Worker._add_task',
    'bqskit.runtime.worker:Worker._try_step_next_ready_task',
    'bqskit.runtime.worker:Worker._process_task_completion',
    'bqskit.runtime.worker:Worker.recv_incoming',
    'bqskit.runtime.worker:Worker.submit',
    'bqskit.runtime.worker:Worker.map',
    'bqskit.runtime.worker:Worker.next',
    'bqskit.runtime.worker:WorkerMailbox.deposit_result',
    'bqskit.runtime.worker:WorkerMailbox.get_new_results',
]
WORKER_CANCEL_FUNCS = [
    'bqskit.runtime.worker:Worker.cancel',
    'bqskit.runtime.worker:Worker._handle_cancel',
]
SERVER_FUNCS = [
    'bqskit.runtime.detached:DetachedServer.handle_cancel_comp_task',
    'bqskit.runtime.detached:DetachedServer.handle_disconnect',
    'bqskit.runtime.detached:DetachedServer.handle_result',
    'bqskit.runtime.detached:DetachedServer.handle_request',
    'bqskit.runtime.detached:DetachedServer.handle_status',
    'bqskit.runtime.detached:DetachedServer.handle_new_comp_task',
    'bqskit.runtime.detached:DetachedServer.handle_error',
    'bqskit.runtime.detached:DetachedServer.handle_log',
    'bqskit.runtime.detached:DetachedServer.listen',
    'bqskit.runtime.base:ServerBase.run',
    'bqskit.runtime.base:ServerBase.send_outgoing',
]
SCHED_FUNCS = [
    'bqskit.runtime.base:ServerBase.schedule_tasks',
    'bqskit.runtime.base:ServerBase.assign_tasks',
    'bqskit.runtime.base:ServerBase.handle_waiting',
    'bqskit.runtime.base:RuntimeEmployee.get_num_of_tasks_sent_since',
    'bqskit.runtime.manager:Manager.send_up_or_schedule_tasks',
    'bqskit.runtime.manager:Manager.update_upstream_idle_workers',
    'bqskit.runtime.manager:Manager.handle_update',
    'bqskit.runtime.manager:Manager.handle_result_from_below',
]
