"""Seam conformance: every behaviour of the simulated primitives that an
oracle can depend on is compared with the real primitive on scripted
sequences (real sockets on loopback, no network needed).

Each scenario is a script returning a list of outcomes; it is executed
once against the real `multiprocessing.connection` / `selectors` /
`threading` / `queue` and once against the simulator's fakes.
"""
from __future__ import annotations

import os
import queue
import selectors
import sys
import threading
import time

VERIF = os.path.dirname(os.path.dirname(os.path.abspath(__file__)))


def outcome(fn, *a):
    try:
        return ('ok', fn(*a))
    except BaseException as e:  # noqa
        return ('exc', type(e).__name__)


# ------------------------------------------------------------------ real
def real_peer(script: str):
    """Fork a peer process that connects and follows `script`."""
    from multiprocessing.connection import Client
    from multiprocessing.connection import Listener
    lst = Listener(('localhost', 0))
    addr = lst.address
    pid = os.fork()
    if pid == 0:
        try:
            c = Client(addr)
            if script == 'read-all-then-exit':
                n = c.recv()
                for _ in range(n):
                    c.recv()
                c.send('done')
                os._exit(0)
            if script == 'exit-with-unread':
                c.send('hello')
                time.sleep(0.3)      # let the survivor's messages arrive
                os._exit(0)
            if script == 'close-then-linger':
                c.recv()
                c.close()
                time.sleep(1.0)
                os._exit(0)
        finally:
            os._exit(0)
    conn = lst.accept()
    lst.close()
    return conn, pid


def real_scenarios() -> dict:
    from multiprocessing.connection import Client
    out = {}
    # 1. peer exits after reading everything
    conn, pid = real_peer('read-all-then-exit')
    conn.send(2)
    conn.send('a')
    conn.send('b')
    r = [outcome(conn.recv)]
    os.waitpid(pid, 0)
    r.append(outcome(conn.recv))
    r.append(outcome(conn.send, 'x'))
    time.sleep(0.2)
    r.append(outcome(conn.send, 'y'))
    r.append(outcome(conn.poll))
    out['peer-exit-after-reading'] = r
    conn.close()
    # 2. peer exits with unread data
    conn, pid = real_peer('exit-with-unread')
    conn.send('unread-1')
    conn.send('unread-2')
    os.waitpid(pid, 0)
    time.sleep(0.1)
    r = [outcome(conn.recv), outcome(conn.recv)]
    r.append(outcome(conn.send, 'x'))
    out['peer-exit-with-unread'] = r
    conn.close()
    # 3. use after local close
    conn, pid = real_peer('close-then-linger')
    conn.send('go')
    conn.close()
    r = [outcome(conn.send, 1), outcome(conn.recv), outcome(conn.poll),
         outcome(conn.fileno), ('ok', conn.closed)]
    out['use-after-close'] = r
    os.waitpid(pid, 0)
    # 4. nobody listens
    out['connect-refused'] = [outcome(Client, ('localhost', 1))]
    # 5. selector bookkeeping
    conn, pid = real_peer('close-then-linger')
    sel = selectors.DefaultSelector()
    r = [outcome(lambda: sel.register(conn, selectors.EVENT_READ, 'd').data)]
    r.append(outcome(lambda: sel.register(conn, selectors.EVENT_READ)))
    conn.send('go')
    ev = sel.select()     # peer closes -> readable (EOF)
    r.append(('ok', [k.data for k, _ in ev]))
    r.append(outcome(conn.recv))
    conn.close()
    r.append(outcome(sel.unregister, conn))
    sel.close()
    r.append(outcome(sel.select, 0))
    out['selector'] = r
    os.waitpid(pid, 0)
    # 6. threads and queues
    r = []
    box = []

    def selfjoin():
        box.append(outcome(threading.current_thread().join))
    t = threading.Thread(target=selfjoin)
    t.start()
    t.join()
    r.append(box[0])
    q = queue.Queue()
    r.append(outcome(q.get_nowait))
    q.put(5)
    r.append(outcome(q.get_nowait))
    r.append(('ok', q.empty()))
    lk = threading.Lock()
    r.append(outcome(lk.release))
    out['thread-queue'] = r
    return out


# ------------------------------------------------------------------- sim
def sim_scenarios() -> dict:
    sys.path.insert(0, VERIF)
    from dst import seams
    from dst.sched import Sim
    out = {}

    def run(survivor, peer):
        sim = Sim(0, policy={'kind': 'uniform'})
        res = []
        sim.spawn(sim.node('a', 'other'), survivor, (sim, res), name='a/main')
        sim.spawn(sim.node('b', 'other'), peer, (sim,), name='b/main')
        sim.run()
        return res

    Client = None

    def listen(sim):
        return seams.SimListener(sim, ('localhost', 5000))

    def connect(sim):
        c = seams.make_client(sim)
        while True:
            try:
                return c(('localhost', 5000))
            except ConnectionRefusedError:
                sim.sleep(0.01)

    # 1
    def s1(sim, r):
        lst = listen(sim)
        conn = lst.accept()
        lst.close()
        conn.send(2)
        conn.send('a')
        conn.send('b')
        r.append(outcome(conn.recv))
        sim.sleep(0.2)
        r.append(outcome(conn.recv))
        r.append(outcome(conn.send, 'x'))
        sim.sleep(0.2)
        r.append(outcome(conn.send, 'y'))
        r.append(outcome(conn.poll))

    def p1(sim):
        c = connect(sim)
        n = c.recv()
        for _ in range(n):
            c.recv()
        c.send('done')
    out['peer-exit-after-reading'] = run(s1, p1)

    # 2
    def s2(sim, r):
        lst = listen(sim)
        conn = lst.accept()
        lst.close()
        conn.send('unread-1')
        conn.send('unread-2')
        sim.sleep(0.5)
        r.append(outcome(conn.recv))
        r.append(outcome(conn.recv))
        r.append(outcome(conn.send, 'x'))

    def p2(sim):
        c = connect(sim)
        c.send('hello')
        sim.sleep(0.3)
    out['peer-exit-with-unread'] = run(s2, p2)

    # 3
    def s3(sim, r):
        lst = listen(sim)
        conn = lst.accept()
        lst.close()
        conn.send('go')
        conn.close()
        r.extend([outcome(conn.send, 1), outcome(conn.recv),
                  outcome(conn.poll), outcome(conn.fileno),
                  ('ok', conn.closed)])

    def p3(sim):
        c = connect(sim)
        c.recv()
        c.close()
        sim.sleep(1.0)
    out['use-after-close'] = run(s3, p3)

    # 4
    def s4(sim, r):
        r.append(outcome(seams.make_client(sim), ('localhost', 1)))
    out['connect-refused'] = run(s4, lambda sim: None)

    # 5
    def s5(sim, r):
        lst = listen(sim)
        conn = lst.accept()
        lst.close()
        sel = seams.SimSelector(sim)
        r.append(outcome(lambda: sel.register(conn, selectors.EVENT_READ,
                                              'd').data))
        r.append(outcome(lambda: sel.register(conn, selectors.EVENT_READ)))
        conn.send('go')
        ev = sel.select()
        r.append(('ok', [k.data for k, _ in ev]))
        r.append(outcome(conn.recv))
        conn.close()
        r.append(outcome(sel.unregister, conn))
        sel.close()
        r.append(outcome(sel.select, 0))
    out['selector'] = run(s5, p3)

    # 6
    def s6(sim, r):
        box = []

        def selfjoin():
            box.append(outcome(t.join))
        t = seams.SimThreadFacade(sim, target=selfjoin)
        t.start()
        t.join()
        r.append(box[0])
        q = seams.SimQueue(sim)
        r.append(outcome(q.get_nowait))
        q.put(5)
        r.append(outcome(q.get_nowait))
        r.append(('ok', q.empty()))
        lk = seams.SimLock(sim)
        r.append(outcome(lk.release))
    out['thread-queue'] = run(s6, lambda sim: None)
    return out


def lock_stress() -> list:
    """Mutual exclusion of SimLock / SimRLock / SimQueue under the
    scheduler itself (a primitive that yields between check and update
    produces phantom double acquisitions)."""
    sys.path.insert(0, VERIF)
    from dst import seams
    from dst.sched import Sim
    bad = []
    for seed in range(40):
        sim = Sim(seed, policy={'kind': 'uniform'})
        node = sim.node('n', 'other')
        lk = seams.SimLock(sim)
        rl = seams.SimRLock(sim)
        q = seams.SimQueue(sim)
        state = {'in': 0, 'max': 0, 'got': []}

        def worker(k):
            for i in range(5):
                with lk:
                    with rl:
                        with rl:
                            state['in'] += 1
                            state['max'] = max(state['max'], state['in'])
                            sim.yield_('inside')
                            state['in'] -= 1
                q.put((k, i))

        def consumer():
            for _ in range(15):
                state['got'].append(q.get())
        for k in range(3):
            sim.spawn(node, worker, (k,), name=f'n/w{k}')
        sim.spawn(node, consumer, name='n/c')
        sim.run()
        if state['max'] != 1 or len(set(state['got'])) != 15 \
                or sim.blocked_report():
            bad.append((seed, state['max'], len(state['got'])))
    return bad


def main() -> int:
    real = real_scenarios()
    sim = sim_scenarios()
    rc = 0
    for k in real:
        same = real[k] == sim.get(k)
        print(f'conformance {k}: {"same" if same else "DIFFERENT"}')
        if not same:
            print('   real:', real[k])
            print('   sim :', sim.get(k))
            rc = 1
    bad = lock_stress()
    print(f'conformance lock/queue mutual exclusion under the scheduler: '
          f'{"ok (40 seeds)" if not bad else "FAILED " + str(bad[:3])}')
    if bad:
        rc = 1
    return rc


if __name__ == '__main__':
    sys.exit(main())
