"""Seam conformance: placeholder until the scripted comparisons are in."""


def main() -> int:
    return 0
