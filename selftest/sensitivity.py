"""Sensitivity: property-breaking changes that keep the repository's test
suite green must be detected.  Each mutant patch is applied to a scratch
copy of /repo/bqskit outside /repo and /verif (removed afterwards); the
check for the mutant's property is run against that copy."""
from __future__ import annotations

import json
import os
import shutil
import subprocess
import sys
import tempfile
import time

VERIF = os.path.dirname(os.path.dirname(os.path.abspath(__file__)))
MUT = os.path.join(VERIF, 'selftest', 'mutants')
RUNS = {'C01': 60, 'C02': 60, 'C03': 60}


def run_mutant(m: dict, runs: int | None = None) -> dict:
    tmp = tempfile.mkdtemp(prefix='dst-mutant-')
    try:
        shutil.copytree('/repo/bqskit', os.path.join(tmp, 'bqskit'))
        p = subprocess.run(['patch', '-p1', '-s', '-d', tmp, '-i',
                            os.path.join(MUT, m['name'] + '.patch')],
                           capture_output=True, text=True)
        if p.returncode != 0:
            return {'name': m['name'], 'status': 'patch-failed',
                    'detail': p.stdout + p.stderr}
        env = dict(os.environ, DST_BQSKIT_PATH=tmp, DST_NO_EVIDENCE='1')
        n = runs or RUNS.get(m['property'], 1200)
        t0 = time.time()
        q = subprocess.run([os.path.join(VERIF, 'check'), m['property'],
                            '--runs', str(n), '--no-minimise',
                            '--budget', '150'], env=env,
                           capture_output=True, text=True, timeout=900)
        sigs = [ln.strip()[len('signature: '):] for ln in
                q.stdout.splitlines() if ln.strip().startswith('signature:')]
        # the replay file of the first violation must reproduce it exactly
        # (same signature, same trace digest) in a fresh process
        replay = None
        for ln in q.stdout.splitlines():
            if ln.startswith('VIOLATION ') and 'replay=' in ln:
                path = ln.split('replay=', 1)[1].strip()
                rp = subprocess.run([os.path.join(VERIF, 'check'), 'replay',
                                     os.path.join(VERIF, path)], env=env,
                                    capture_output=True, text=True,
                                    timeout=900)
                replay = ('exact' if 'reproduced exactly' in rp.stdout
                          else 'same-signature' if rp.returncode == 1
                          else f'not-reproduced rc={rp.returncode}')
                break
        return {'name': m['name'], 'property': m['property'],
                'exit': q.returncode, 'detected': q.returncode == 1,
                'seconds': round(time.time() - t0, 1),
                'signatures': sigs[:6], 'replay': replay,
                'note': m['note']}
    finally:
        shutil.rmtree(tmp, ignore_errors=True)


def main(only: str | None = None) -> int:
    muts = json.load(open(os.path.join(MUT, 'index.json')))
    rc = 0
    results = []
    for m in muts:
        if only and only not in m['name']:
            continue
        r = run_mutant(m)
        results.append(r)
        ok = r.get('detected')
        if m.get('expect') == 'equivalent':
            print(f"sensitivity {r['name']} [{m['property']}]: equivalent "
                  f"mutant, {'flagged anyway' if ok else 'not flagged'} "
                  f"({m.get('why_equivalent', '')[:90]}...)", flush=True)
            continue
        print(f"sensitivity {r['name']} [{m['property']}]: "
              f"{'DETECTED' if ok else 'MISSED ' + str(r.get('status', r.get('exit')))}"
              f" in {r.get('seconds')}s replay={r.get('replay')} "
              f"{r.get('signatures', [])[:2]}",
              flush=True)
        if not ok or r.get('replay') != 'exact':
            rc = 1
    with open(os.path.join(VERIF, 'selftest', 'sensitivity_last.json'),
              'w') as f:
        json.dump(results, f, indent=1)
    return rc


if __name__ == '__main__':
    sys.path.insert(0, VERIF)
    sys.exit(main(sys.argv[1] if len(sys.argv) > 1 else None))
