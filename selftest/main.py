"""Self-tests of the verification machinery.

  fast         determinism on a small sample + seam conformance (setup_cmd)
  determinism  N run seeds per property, each executed (a) one per fresh
               forked interpreter state, (b) back-to-back in one process,
               (c) in a fresh interpreter under another PYTHONHASHSEED;
               full trace digests must agree
  conformance  simulated primitives vs the real ones on scripted sequences
"""
from __future__ import annotations

import json
import os
import subprocess
import sys
import time

VERIF = os.path.dirname(os.path.dirname(os.path.abspath(__file__)))


def digests(prop: str, tier: str, idx: list[int], mode: str) -> dict:
    from dst import props
    from dst import runner
    runner._warm()
    out = {}
    if mode == 'fork':
        for i in idx:
            seed = props.run_seed(0, prop, tier, i)
            r = runner.fork_run(runner.run_child, (prop, tier, seed, i), 300)
            out[i] = (r.get('digest'), r.get('status'),
                      sorted(v['sig'] for v in r.get('violations') or []))
    else:
        for i in idx:
            seed = props.run_seed(0, prop, tier, i)
            runner.reset_process_state()
            r = runner.run_child(prop, tier, seed, i)
            out[i] = (r.get('digest'), r.get('status'),
                      sorted(v['sig'] for v in r.get('violations') or []))
    return out


def _sub(prop: str, tier: str, idx: list[int], mode: str, hashseed: str):
    env = dict(os.environ, PYTHONHASHSEED=hashseed)
    cmd = [sys.executable, os.path.join(VERIF, 'selftest', 'main.py'),
           'digests', prop, tier, mode, ','.join(map(str, idx))]
    p = subprocess.run(cmd, env=env, capture_output=True, text=True,
                       timeout=3000)
    if p.returncode != 0:
        raise RuntimeError(f'digest subprocess failed: {p.stderr[-2000:]}')
    return {int(k): tuple(map(_t, v))
            for k, v in json.loads(p.stdout.strip().splitlines()[-1]).items()}


def _t(x):
    return tuple(x) if isinstance(x, list) else x


# compile() runs are reproducible only under the hash seed ./check pins:
# BQSKit's own gate hashes (barrier, measurement, circuit and composed
# gates) hash strings, so gate-set iteration order -- and with it what
# synthesis tries first -- follows PYTHONHASHSEED.
PINNED_HASHSEED = ('C01', 'C02', 'C03')


def determinism(props_: list[str], n: int, n_compile: int = 0) -> int:
    bad = 0
    for prop in props_:
        pinned = prop in PINNED_HASHSEED
        k = (n_compile or max(2, n // 3)) if pinned else n
        idx = list(range(k))
        hs = ('0', '0', '0') if pinned else ('0', '1', '12345')
        t0 = time.time()
        a = _sub(prop, 'quick', idx, 'fork', hs[0])
        # compile() runs always execute in a fresh fork (runner.FORK_PER_RUN)
        m2 = 'fork' if pinned else 'inproc'
        b = _sub(prop, 'quick', list(reversed(idx)), m2, hs[1])
        c = _sub(prop, 'quick', idx, m2, hs[2])
        diff = [i for i in idx if not (a[i] == b[i] == c[i])]
        none = [i for i in idx if a[i][0] is None]
        print(f'determinism {prop}: {k} seeds x 3 executions '
              f'(fresh fork per run / back-to-back reversed / back-to-back; '
              f'PYTHONHASHSEED {"/".join(hs)}): {len(diff)} divergent, '
              f'{len(none)} without digest, {time.time() - t0:.0f}s',
              flush=True)
        for i in diff[:5]:
            print('   DIVERGED', prop, i, a[i], b[i], c[i])
        bad += len(diff) + len(none)
    return bad


def available_props() -> list[str]:
    from dst import props
    return sorted(props.GENS)


def main(which: str, n: int) -> int:
    rc = 0
    if which in ('fast', 'conformance', 'all'):
        from selftest import conformance
        rc |= conformance.main()
    if which in ('fast', 'determinism', 'all'):
        k = n or (4 if which == 'fast' else 200)
        bad = determinism(available_props(), k,
                          n_compile=2 if which == 'fast' else 0)
        if bad:
            print('SELFTEST-FAILED determinism')
            rc |= 1
    if which in ('sensitivity',):
        from selftest import sensitivity
        rc |= sensitivity.main()
    print('selftest', which, 'OK' if rc == 0 else 'FAILED')
    return rc


if __name__ == '__main__':
    sys.path.insert(0, VERIF)
    if sys.argv[1] == 'digests':
        prop, tier, mode, idx = sys.argv[2:6]
        d = digests(prop, tier, [int(x) for x in idx.split(',')], mode)
        print(json.dumps({str(k): v for k, v in d.items()}))
        sys.exit(0)
    sys.exit(main(sys.argv[1], int(sys.argv[2]) if len(sys.argv) > 2 else 0))
