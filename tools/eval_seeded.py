#!/venv/bin/python
"""Run checks against a seeded breaking change.

  tools/eval_seeded.py <dir with patch.diff> <PROP> [<PROP> ...] [--runs N]

The patch is applied to a scratch copy of /repo/bqskit (outside /repo and
/verif, removed afterwards) that the checks import via DST_BQSKIT_PATH;
evidence files are not written."""
from __future__ import annotations

import json
import os
import shutil
import subprocess
import sys
import tempfile
import time

VERIF = os.path.dirname(os.path.dirname(os.path.abspath(__file__)))


def main() -> int:
    args = sys.argv[1:]
    runs = None
    if '--runs' in args:
        i = args.index('--runs')
        runs = args[i + 1]
        del args[i:i + 2]
    d, props = args[0], args[1:]
    patch = os.path.join(d, 'patch.diff')
    tmp = tempfile.mkdtemp(prefix='dst-seeded-')
    out = []
    try:
        shutil.copytree('/repo/bqskit', os.path.join(tmp, 'bqskit'))
        p = subprocess.run(['patch', '-p1', '-s', '-d', tmp, '-i', patch],
                           capture_output=True, text=True)
        if p.returncode != 0:
            print('PATCH FAILED', p.stdout, p.stderr)
            return 2
        env = dict(os.environ, DST_BQSKIT_PATH=tmp, DST_NO_EVIDENCE='1')
        for prop in props:
            cmd = [os.path.join(VERIF, 'check'), prop, '--no-minimise']
            if runs:
                cmd += ['--runs', runs]
            t0 = time.time()
            q = subprocess.run(cmd, env=env, capture_output=True, text=True,
                               timeout=3000)
            sigs = [ln.strip() for ln in q.stdout.splitlines()
                    if ln.strip().startswith('signature:')]
            last = q.stdout.strip().splitlines()[-1] if q.stdout.strip() \
                else ''
            print(f'{os.path.basename(d.rstrip("/"))} {prop}: exit '
                  f'{q.returncode} in {time.time() - t0:.0f}s; {last}')
            for s in sigs[:8]:
                print('    ', s)
            out.append({'property': prop, 'exit': q.returncode,
                        'seconds': round(time.time() - t0),
                        'signatures': sigs[:12]})
    finally:
        shutil.rmtree(tmp, ignore_errors=True)
    print(json.dumps(out))
    return 0


if __name__ == '__main__':
    sys.exit(main())
