#!/venv/bin/python
"""Re-run the quick check of every seeded change's property against a
scratch copy with the change applied; update seeded/<id>/meta.json
(detection block, history kept).  tools/reeval_all_seeded.py [name-filter]"""
import json
import os
import subprocess
import sys

VERIF = os.path.dirname(os.path.dirname(os.path.abspath(__file__)))


def main():
    flt = sys.argv[1] if len(sys.argv) > 1 else ''
    missed = []
    for name in sorted(os.listdir(os.path.join(VERIF, 'seeded'))):
        d = os.path.join(VERIF, 'seeded', name)
        mp = os.path.join(d, 'meta.json')
        if flt not in name or not os.path.exists(mp):
            continue
        m = json.load(open(mp))
        prop = m['property']
        q = subprocess.run(['/venv/bin/python',
                            os.path.join(VERIF, 'tools', 'eval_seeded.py'),
                            d, prop], capture_output=True, text=True)
        ev = json.loads(q.stdout.strip().splitlines()[-1])[0]
        old = m.get('detection') or {}
        det = {'check': prop, 'tier': 'quick', 'exit': ev['exit'],
               'detected': ev['exit'] == 1, 'seconds': ev['seconds'],
               'signatures': [s.replace('signature: ', '')
                              for s in ev['signatures']]}
        if old.get('history'):
            det['history'] = old['history']
        if not det['detected'] and old.get('thorough'):
            det['thorough'] = old['thorough']
        m['detection'] = det
        json.dump(m, open(mp, 'w'), indent=1)
        print(name, 'DETECTED' if det['detected'] else 'MISSED',
              det['seconds'], det['signatures'][:2], flush=True)
        if not det['detected']:
            missed.append(name)
    print('missed:', missed)


main()
