#!/bin/sh
# Run a command in a private network namespace (own loopback), so that
# BQSKit runtimes started by different people do not collide on the fixed
# default ports 7472-7474.  Usage: /tmp/iso.sh <command> [args...]
exec unshare -n sh -c 'ip link set lo up; exec "$@"' sh "$@"
