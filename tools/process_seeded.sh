#!/bin/bash
# tools/process_seeded.sh <dir with patch.diff, demo*.py, meta.json> <name> <PROP> ["<tests>"]
# Confirms the change independently (scratch worktree, removed afterwards),
# runs the quick check for <PROP> against it and files it under seeded/<name>.
set -u
D="$1"; NAME="$2"; PROP="$3"; TESTS="${4:-tests/compiler/test_compiler.py tests/runtime}"
V=$(cd "$(dirname "$0")/.." && pwd)
"$V/tools/confirm_seeded.sh" "$D" "$NAME" "$TESTS" > /tmp/ps_$NAME.confirm 2>&1
/venv/bin/python "$V/tools/eval_seeded.py" "$D" "$PROP" 2>&1 | tail -1 > /tmp/ps_$NAME.eval
/venv/bin/python - "$D" "$NAME" "$PROP" <<'PY'
import json, subprocess, sys
d, name, prop = sys.argv[1:4]
ev = json.load(open(f'/tmp/ps_{name}.eval'))[0]
det = {'check': prop, 'tier': 'quick', 'exit': ev['exit'],
       'detected': ev['exit'] == 1, 'seconds': ev['seconds'],
       'signatures': [s.replace('signature: ', '') for s in ev['signatures']]}
conf = json.load(open(f'{d}/confirm.json'))
ok = (conf['demo_on_clean_exit'] == 0 and conf['demo_with_patch_exit'] != 0
      and conf['patch_applies'] == 0 and conf['import_exit'] == 0
      and conf['tests_exit'] == 0)
print('CONFIRM', name, 'ok' if ok else 'NOT-OK', conf['tests_summary'],
      '| DETECTED' if det['detected'] else '| MISSED', det['signatures'][:3])
if ok:
    subprocess.run(['/venv/bin/python', '/verif/tools/collect_seeded.py', d,
                    f'{prop}-{name}', json.dumps(det)], check=True)
PY
