#!/bin/bash
# Confirm a seeded change independently in a scratch worktree:
#   tools/confirm_seeded.sh <dir with patch.diff + demo> <name> "<test paths>"
# 1. demo passes on the unchanged source, 2. patch applies and bqskit
# imports, 3. demo fails with the patch, 4. the given existing tests pass
# with the patch.  Everything runs in a private network namespace.
set -u
V=$(cd "$(dirname "$0")/.." && pwd)
D="$1"; NAME="$2"; TESTS="${3:-tests/compiler/test_compiler.py tests/runtime}"
WT=/tmp/cf_$NAME
OUT="$D/confirm.json"
git -C /repo worktree remove --force "$WT" >/dev/null 2>&1
git -C /repo worktree add -q --detach "$WT" HEAD || exit 2
DEMO=$(ls "$D"/demo*.py | head -1)
run_demo() {
  if grep -q "^def test_\|^async def test_" "$DEMO" && ! grep -q "__main__" "$DEMO"; then
    (cd "$WT" && timeout 900 "$V/tools/iso.sh" env PYTHONPATH="$WT" /venv/bin/python -m pytest -q -p no:cacheprovider -x "$DEMO" --timeout=600 >/tmp/cf_$NAME.demo.log 2>&1)
  else
    (cd "$WT" && timeout 900 "$V/tools/iso.sh" env PYTHONPATH="$WT" /venv/bin/python "$DEMO" >/tmp/cf_$NAME.demo.log 2>&1)
  fi
  echo $?
}
CLEAN=$(run_demo)
git -C "$WT" apply "$D/patch.diff"; APPLY=$?
IMPORT=$(cd "$WT" && PYTHONPATH="$WT" /venv/bin/python -c "import bqskit" >/dev/null 2>&1; echo $?)
MUT=$(run_demo)
tail -c 600 /tmp/cf_$NAME.demo.log > /tmp/cf_$NAME.demo.tail
(cd "$WT" && timeout 5400 "$V/tools/iso.sh" env PYTHONPATH="$WT" /venv/bin/python -m pytest -q -p no:cacheprovider --timeout=900 $TESTS >/tmp/cf_$NAME.tests.log 2>&1); TRC=$?
TSUM=$(tail -n 1 /tmp/cf_$NAME.tests.log)
git -C /repo worktree remove --force "$WT" >/dev/null 2>&1
printf '{"name": "%s", "demo_on_clean_exit": %s, "patch_applies": %s, "import_exit": %s, "demo_with_patch_exit": %s, "tests": "%s", "tests_exit": %s, "tests_summary": "%s"}\n' \
  "$NAME" "$CLEAN" "$APPLY" "$IMPORT" "$MUT" "$TESTS" "$TRC" "$TSUM" > "$OUT"
cat "$OUT"
