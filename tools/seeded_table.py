#!/venv/bin/python
"""Print the DESIGN.md section 15.2 table from seeded/*/meta.json."""
import json
import os

VERIF = os.path.dirname(os.path.dirname(os.path.abspath(__file__)))


def main():
    rows = []
    for name in sorted(os.listdir(os.path.join(VERIF, 'seeded'))):
        p = os.path.join(VERIF, 'seeded', name, 'meta.json')
        if not os.path.exists(p):
            continue
        m = json.load(open(p))
        det = m.get('detection') or {}
        summ = (m.get('summary') or '').replace('|', '/').replace('\n', ' ')
        if len(summ) > 230:
            summ = summ[:230] + '…'
        tier = det.get('tier', 'quick')
        how = (f"detected ({det.get('seconds')} s)" if det.get('detected')
               else 'missed') + ('' if tier == 'quick' else f' [{tier}]')
        sig_list = det.get('signatures', [])
        th = det.get('thorough')
        if th and not det.get('detected'):
            how = (f"quick: missed ({det.get('seconds')} s); thorough: "
                   f"detected ({th.get('seconds')} s)")
            sig_list = th.get('signatures', [])
        sigs = '; '.join(sig_list[:2]).replace('|', '/')
        hist = (det.get('history') or m.get('history') or '').replace(
            '|', '/')
        rows.append(f"| `{name}` | {m.get('property')} | {summ} | {how} | "
                    f"{sigs} | {hist} |")
    print('| change (`/verif/seeded/…`) | property | what it does | '
          'check result | first signatures | history |')
    print('|---|---|---|---|---|---|')
    print('\n'.join(rows))


main()
