#!/venv/bin/python
"""Copy a confirmed seeded change into /verif/seeded/<name>/ with a merged
meta.json (agent's description + independent confirmation + detection)."""
import json
import os
import shutil
import sys

VERIF = os.path.dirname(os.path.dirname(os.path.abspath(__file__)))


def main():
    src, name = sys.argv[1], sys.argv[2]
    detection = json.loads(sys.argv[3]) if len(sys.argv) > 3 else {}
    dst = os.path.join(VERIF, 'seeded', name)
    os.makedirs(dst, exist_ok=True)
    shutil.copy(os.path.join(src, 'patch.diff'), dst)
    for f in os.listdir(src):
        if f.startswith('demo') and f.endswith('.py'):
            shutil.copy(os.path.join(src, f), dst)
    meta = json.load(open(os.path.join(src, 'meta.json')))
    conf = {}
    if os.path.exists(os.path.join(src, 'confirm.json')):
        conf = json.load(open(os.path.join(src, 'confirm.json')))
    out = {
        'id': name,
        'property': meta.get('property'),
        'summary': meta.get('summary'),
        'needs_to_manifest': meta.get('needs_to_manifest'),
        'files_changed': meta.get('files_changed'),
        'origin': 'independent sub-agent given only the property text and '
                  'a scratch worktree',
        'author_tests_run': meta.get('tests_run'),
        'demo_cmd': 'cd <scratch worktree with patch applied> && '
                    '/verif/tools/iso.sh env PYTHONPATH=<worktree> /venv/bin/python '
                    'demo.py   (iso.sh = unshare -n + loopback up)',
        'confirmed_by_me': {
            'demo_exit_on_unchanged_source': conf.get('demo_on_clean_exit'),
            'demo_exit_with_patch': conf.get('demo_with_patch_exit'),
            'patch_applies': conf.get('patch_applies') == 0,
            'import_ok': conf.get('import_exit') == 0,
            'existing_tests_run_with_patch': conf.get('tests'),
            'existing_tests_result': conf.get('tests_summary'),
            'note': conf.get('note', ''),
        },
        'detection': detection,
    }
    json.dump(out, open(os.path.join(dst, 'meta.json'), 'w'), indent=1)
    print('collected', name)


main()
